"""C12 — zix_path_join / zix_path_lexically_relative / zix_path_preferred agree with C++17 path operations.

cases (strings in hex, "-" = empty, "N" = NULL where path.h allows it):
  J <a> <b>        join          line: join=<hex text> || alloc=<kind><size> block=<hex of the whole block>
  R <path> <base>  relative      line: rel=<root flag>:<elem>,<elem>,... | rel=NULL || text=<hex> alloc=... block=...
  P <path>         preferred     line: pref=<hex text> || alloc=... block=...
  I <path>         internal element iterator trace (structural only; the property says nothing about it)
"""
import itertools
import os
import re
import time
from concurrent.futures import ThreadPoolExecutor

import vlib

PROPS = "Properties_C12"
NDEBUG_TOO = True     # the library\'s normal build compiles assertions out: the same cases run against that build too
# leaf functions / constants of path.c are re-translated from the C source on every run (tools/translate_leaf.py ->
# coq/gen/Leaf.v, Constants.v) and re-proved equal to the model's (coq/Properties_leaf_path.v)
EXTRA_PROPS = ["Properties_leaf_path"]


def REGEN(ctx):
    vlib.regen_leaf(ctx, ["Path"])


RULE = ("all pairs of strings over {'/','.','a'} up to length 5 (quick) / 6 (thorough) for join and for "
        "lexically_relative, all pairs over {'/','.','a','b'} up to length 4 (quick) / 5 (thorough, relative), "
        "thorough: 2 million sampled pairs of length <= 7; every such string for preferred and for the iterator "
        "trace, join with NULL arguments, plus seeded random pairs (segment-built, shared prefixes, bytes 1..255, "
        "up to ~80 bytes); non-trivial = "
        "both arguments non-empty (join), both non-empty with the same rootedness (relative), contains a separator (preferred)")
ASSUMPTIONS = [
    "allocation succeeds, or (X cases) every request is refused: then NULL is returned after at most one request and "
    "nothing is written (fault placement in longer call sequences is C07's subject); the result block is observed "
    "through a tracking ZixAllocator (requested size, full content)",
    "strlen/memcpy/strncmp are libc's; the model takes strlen as the index of the NUL",
    "coq/PathJoinSpec.v is compared with libstdc++ (g++ -std=c++17 std::filesystem::path) on every generated case "
    "of every run; a disagreement is reported as a broken spec validation",
]

ALPHA = "/.a"
SHARDS = 8


# ------------------------------------------------------------------ helpers
def hx(s):
    if s is None:
        return "N"
    b = s if isinstance(s, bytes) else s.encode("latin-1")
    return b.hex() or "-"


def unhx(t):
    if t == "N":
        return None
    return b"" if t == "-" else bytes.fromhex(t)


def all_strings(maxlen, alpha=ALPHA):
    out = []
    for n in range(maxlen + 1):
        out += ["".join(t) for t in itertools.product(alpha, repeat=n)]
    return out


SEGS = [b"", b".", b"..", b"a", b"b", b"ab", b"...", b"a.", b".a", b"..a", b"a..", b"a.b", b"\xc3\xa9", b"\\", b":",
        b"c:", b" ", b"\x01", b"\xff", b"abcdefgh"]


def rand_path(r):
    k = r.choice([0, 1, 1, 2, 2, 3, 3, 4, 5, 7])
    segs = [r.choice(SEGS[:12]) if r.random() < 0.85 else r.choice(SEGS) for _ in range(k)]
    s = b"/" * r.choice([0, 0, 0, 1, 1, 2, 3])
    for i, g in enumerate(segs):
        if g == b"" and i + 1 < len(segs):
            continue
        s += g
        if i + 1 < len(segs) or r.random() < 0.3:
            s += b"/" * r.choice([1, 1, 1, 1, 2, 3])
    if r.random() < 0.05:
        s = bytes(r.randint(1, 255) for _ in range(r.randint(0, 12)))
    return s[:40]


def mutate(r, s):
    """a base that shares a (possibly long) prefix with s"""
    parts = s.split(b"/")
    cut = r.randint(0, len(parts))
    t = b"/".join(parts[:cut])
    extra = rand_path(r)
    c = r.random()
    if c < 0.3:
        return t
    if c < 0.6:
        return t + (b"/" if t and not t.endswith(b"/") else b"") + extra.lstrip(b"/")
    if c < 0.8:
        return t + b"/" * r.randint(1, 3) + extra.lstrip(b"/")
    return extra


def random_cases(r, n):
    cases = []
    for _ in range(n):
        a = rand_path(r)
        b = mutate(r, a) if r.random() < 0.7 else rand_path(r)
        if r.random() < 0.5:
            a, b = b, a
        cases.append("R %s %s" % (hx(a), hx(b)))
        cases.append("J %s %s" % (hx(a), hx(b)))
        if r.random() < 0.2:
            cases.append("P %s" % hx(a))
            cases.append("I %s" % hx(a))
    return cases


# ------------------------------------------------------------------ plug-in interface
_CTX = [None]


def build(ctx):
    _CTX[0] = ctx
    ctx.c12_iter = True
    try:
        ctx.build_driver("drv_c12", ["path.c", "string_view.c", "allocator.c"], flags=["-DC12_ITER"])
    except vlib.BuildError as e:
        # the internal iterator (src/path_iter.h) may have been refactored away: fall back to the public API
        ctx.c12_iter = False
        ctx.broken.append("iterator-driver: harness/drv_c12.c -DC12_ITER no longer builds (zix_path_begin/next changed): "
                          + str(e)[-200:])
        ctx.build_driver("drv_c12", ["path.c", "string_view.c", "allocator.c"])
    ctx.cc([os.path.join(vlib.HARNESS, "std_path_c12.cpp")], ctx.path("std_path_c12"), cxx=True, sanitize=False)
    exe = os.path.join(vlib.OCAML_BUILD, "drv_c12")
    srcs = [os.path.join(vlib.COQ, f) for f in ("PathJoinSpec.v", "PathJoinModel.v", "ExtractC12.v")] + \
           [os.path.join(vlib.VERIF, "ocaml", "drv_c12.ml")]
    if not os.path.exists(exe) or any(os.path.getmtime(s) > os.path.getmtime(exe) for s in srcs):
        rc, out, err = vlib.sh([os.path.join(vlib.VERIF, "tools", "build_models.sh"), "C12"], timeout=900)
        if rc != 0:
            raise vlib.BuildError("model build failed: " + (out + err)[-500:])
    ctx.c12_oracle_checked = 0
    ctx.c12_oracle_bad = 0


def corpus(ctx):
    p = os.path.join(vlib.VERIF, "corpus", "C12.txt")
    if not os.path.exists(p):
        return []
    return [l.strip() for l in open(p) if l.strip() and not l.startswith("#")]


def gen(ctx, seed, tier):
    r = ctx.rng("gen", seed)
    if seed != ctx.seed:            # search seeds: the exhaustive part does not depend on the seed
        rc = random_cases(r, 6000 if tier == "quick" else 30000)
        return rc + ["X " + c for c in rc[:300] if c[0] in "JRP" and " N" not in c]
    thorough = tier == "thorough"
    ss = [hx(s) for s in all_strings(6 if thorough else 5)]
    cases = []
    for s in ss:
        cases.append("P " + s)
        cases.append("I " + s)
        cases.append("J N " + s)
        cases.append("J %s N" % s)
    cases.append("J N N")
    for a in ss:
        for b in ss:
            cases.append("J %s %s" % (a, b))
            cases.append("R %s %s" % (a, b))
    # a second name letter, so that distinct names of equal length meet in the mismatch scan
    s4 = [hx(s) for s in all_strings(5 if thorough else 4, "/.ab")]
    for a in s4:
        for b in s4:
            cases.append("R %s %s" % (a, b))
            if not thorough:
                cases.append("J %s %s" % (a, b))
    if thorough:
        # length 7 over the three letters: a seeded sample of the 10.7 million pairs
        s7 = [hx(s) for s in all_strings(7)]
        n7 = len(s7)
        for _ in range(1500000):
            cases.append("R %s %s" % (s7[r.randrange(n7)], s7[r.randrange(n7)]))
        for _ in range(500000):
            cases.append("J %s %s" % (s7[r.randrange(n7)], s7[r.randrange(n7)]))
    cases += random_cases(r, 30000 if not thorough else 200000)
    # long arguments (no length is special: PATH_MAX, 2^16)
    # (the extracted model is quadratic in the length: a handful of cases up to 4097 bytes; thorough adds 8192)
    for n in ((255, 256, 4095, 4096, 4097) + ((1023, 1024, 8191, 8192) if thorough else ())):
        for m in ((1,) if n > 1000 and not thorough else (1, 40)):
            a = "2f737276" + "64" * max(0, n - m - 5)           # /srv + d...
            b = "66" * m
            cases.append("J %s %s" % (a, b))
            cases.append("J %s 2f%s" % (b, a[2:]))
            cases.append("R %s2f%s %s" % (a, b, a))
            cases.append("R %s %s2f%s" % (a, a, b))
            cases.append("P %s2f%s" % (a, b))
    # results that climb k levels (no depth is special): base has k more names than the common prefix,
    # path continues with j names; plain, under a root, with a trailing separator, with '.' and '..' mixed in
    for k in list(range(0, 41)) + ([64, 65, 127, 128, 129, 255, 256, 257] if thorough else [64, 65]):
        ups = ["n%d" % i for i in range(k)]
        for j in (0, 1, 3):
            downs = ["x%d" % i for i in range(j)]
            for pre in ("", "/", "c/", "/c/"):
                pa = pre + "/".join(downs)
                ba = pre + "/".join(ups)
                cases.append("R %s %s" % (hx(pa.encode()), hx(ba.encode())))
                if k and j != 3:
                    cases.append("R %s %s" % (hx((pa + "/").encode()), hx((ba + "/").encode())))
                    cases.append("R %s %s" % (hx(pa.encode()), hx((pre + "/".join(ups + [".."] + ["."])).encode())))
                    cases.append("R %s %s" % (hx(pa.encode()), hx((pre + "//".join(ups)).encode())))
    # the same calls with an allocator that refuses every request (NULL, no write through it)
    s3 = [hx(s) for s in all_strings(3 if not thorough else 4)]
    for a in s3:
        cases.append("X P " + a)
        for b in s3:
            cases.append("X J %s %s" % (a, b))
            cases.append("X R %s %s" % (a, b))
    cases += ["X " + c for c in random_cases(r, 600 if not thorough else 4000) if c[0] in "JRP" and " N" not in c]
    return cases


def targeted(ctx):
    """inputs aimed at the decisions of the three functions (used by the search)"""
    r = ctx.rng("targeted")
    roots = ["", "/", "//", "///"]
    segs = ["", ".", "..", "a", "b", "a.", "..a", "..."]
    paths = set()
    for ro in roots:
        for n in range(0, 4):
            for combo in itertools.product(segs, repeat=n):
                if r.random() < (1.0 if n < 3 else 0.25):
                    for sep in ("/", "//"):
                        for trail in ("", "/"):
                            paths.add(ro + sep.join(combo) + trail)
    paths = sorted(paths)
    r.shuffle(paths)
    paths = paths[:700]
    cases = []
    for a in paths[:250]:
        for b in paths[:250]:
            cases.append("R %s %s" % (hx(a), hx(b)))
            cases.append("J %s %s" % (hx(a), hx(b)))
    for a in paths:
        cases.append("P " + hx(a))
        cases.append("J N " + hx(a))
        cases.append("J %s N" % hx(a))
    return cases


def _shards(cases, n):
    if len(cases) < 4000:
        return [cases]
    k = (len(cases) + n - 1) // n
    return [cases[i:i + k] for i in range(0, len(cases), k)]


def _impl_one(ctx, cases):
    """run the C driver; a crash (sanitizer report, signal) marks the case it happened on and restarts"""
    out = []
    restarts = 0
    todo = cases
    while todo:
        rc, lines, err = ctx.run_lines([ctx.path("drv_c12")], todo, timeout=1800)
        if rc == 0 and len(lines) == len(todo):
            out += lines
            break
        lines = lines[:len(todo)]
        # the driver flushes after every case: a partial last line cannot be told from a full one, so
        # only lines for cases that certainly completed are kept
        k = len(lines)
        if k and not _complete(todo[k - 1], lines[k - 1]):
            k -= 1
        out += lines[:k]
        if k >= len(todo):
            # every case printed its line but the process still failed (e.g. LeakSanitizer at exit):
            # structural failure attached to the last case
            tag = "EXIT rc=%d %s" % (rc, " ".join(l.strip() for l in err.split("\n") if "ERROR" in l)[:120])
            out[-1] = out[-1] + (" " if " || " in out[-1] else " || ") + tag
            break
        first = ""
        for l in err.split("\n"):
            if "ERROR" in l or "runtime error" in l:
                first = l.strip()[:160]
                break
        first = re.sub(r"0x[0-9a-f]+", "0x..", first)
        first = re.sub(r"==\d+==", "", first)
        out.append("CRASH rc=%d %s" % (rc, first))
        todo = todo[k + 1:]
        restarts += 1
        if restarts > 12 and todo:
            # mass failure: stop here; the lines above already hold this shard's first (genuine) crashes
            out += ["CRASH (not run: too many crashes in this shard)"] * len(todo)
            break
    return out


def _complete(case, line):
    k = case[0]
    if k == "X":
        return " calls=" in line and line.rstrip()[-1:].isdigit()
    if k == "I":
        return line.startswith("iter || ") and line.rstrip()[-1:].isdigit() and ("E" in line)
    if line.startswith(("rel=NULL", "join=NULL", "pref=NULL", "?")):
        return True
    if " block=" not in line:
        return False
    # alloc=<kind><size> block=<2*size hex digits>
    try:
        a = line.rsplit(" alloc=", 1)[1]
        size = int(a.split(" ")[0][1:])
        return len(a.split("block=")[1]) == 2 * size
    except Exception:
        return False


def run_impl(ctx, cases):
    if not getattr(ctx, "c12_iter", True):
        pass    # 'I' cases print '?' from the fallback driver; they then differ from the model (L2 only)
    sh = _shards(cases, SHARDS)
    if len(sh) == 1:
        return _impl_one(ctx, cases)
    with ThreadPoolExecutor(len(sh)) as ex:
        parts = list(ex.map(lambda c: _impl_one(ctx, c), sh))
    return [l for p in parts for l in p]


def _oracle(ctx, cases, spec):
    """validate the Coq spec (S lines) against libstdc++ on the same cases"""
    rc, lines, err = ctx.run_lines([ctx.path("std_path_c12")], cases, timeout=1800)
    if rc != 0 or len(lines) != len(cases):
        return len(cases), ["oracle failed rc=%d" % rc]
    bad = ["%s: coq-spec `%s` libstdc++ `%s`" % (c, s, o) for c, s, o in zip(cases, spec, lines) if s != o]
    return len(cases), bad


def run_model(ctx, cases):
    # X <case>: failing allocator.  Model and spec lines are derived from the model's line for the plain case:
    # NULL is returned; the allocator is asked once unless the plain call allocates nothing
    plain = [c[2:] if c.startswith("X ") else c for c in cases]
    ms, ss = _run_model_plain(ctx, plain)
    for i, c in enumerate(cases):
        if c.startswith("X "):
            kind = {"J": "join", "R": "rel", "P": "pref"}.get(c[2], "?")
            ms[i] = "%s=NULL || calls=%d" % (kind, 0 if "alloc=none" in ms[i] else 1)
            ss[i] = "%s=NULL" % kind
    return ms, ss


def _run_model_plain(ctx, cases):
    sh = _shards(cases, SHARDS)

    def one(cs):
        m, s = ctx.run_model("drv_c12", cs, timeout=1800)
        n, bad = _oracle(ctx, cs, s)
        return m, s, n, bad
    if len(sh) == 1:
        parts = [one(cases)]
    else:
        with ThreadPoolExecutor(len(sh)) as ex:
            parts = list(ex.map(one, sh))
    ms = [l for p in parts for l in p[0]]
    ss = [l for p in parts for l in p[1]]
    ctx.c12_oracle_checked = getattr(ctx, "c12_oracle_checked", 0) + sum(p[2] for p in parts)
    bad = [b for p in parts for b in p[3]]
    if bad:
        if not getattr(ctx, "c12_oracle_bad", 0):
            ctx.broken.append("spec-validation: coq/PathJoinSpec.v disagrees with libstdc++ on %d cases (first: %s)"
                              % (len(bad), bad[0][:200]))
        ctx.c12_oracle_bad = getattr(ctx, "c12_oracle_bad", 0) + len(bad)
    return ms, ss


def nontrivial(c):
    t = c.split()
    if t[0] == "X":
        t = t[1:]
    if t[0] == "J":
        return t[1] not in ("-", "N") and t[2] not in ("-", "N")
    if t[0] == "R":
        return t[1] != "-" and t[2] != "-" and (t[1].startswith("2f") == t[2].startswith("2f"))
    if t[0] == "P":
        return "2f" in [t[1][i:i + 2] for i in range(0, len(t[1]), 2)]
    return False


# shrinking: tokens are (argument index, byte); the kind and NULL-ness of the case are kept aside
_SHR = {}


def tokens(case):
    t = case.split()
    _SHR["pre"] = ""
    if t[0] == "X":
        _SHR["pre"] = "X "
        t = t[1:]
    _SHR["kind"] = t[0]
    _SHR["null"] = [x == "N" for x in t[1:]]
    _SHR["nargs"] = len(t) - 1
    toks = []
    for i, x in enumerate(t[1:]):
        b = unhx(x) or b""
        toks += [(i, v) for v in b]
    return toks


def untokens(toks):
    args = []
    for i in range(_SHR["nargs"]):
        b = bytes(v for (j, v) in toks if j == i)
        args.append("N" if (_SHR["null"][i] and not b) else hx(b))
    return _SHR["pre"] + " ".join([_SHR["kind"]] + args)


def stats(cases, impl):
    kinds = {}
    for c in cases:
        kinds[c[0]] = kinds.get(c[0], 0) + 1
    rel = [l for c, l in zip(cases, impl) if c[0] == "R"]
    d = {
        "join_cases": kinds.get("J", 0), "relative_cases": kinds.get("R", 0),
        "preferred_cases": kinds.get("P", 0), "iterator_trace_cases": kinds.get("I", 0),
        "join_null_argument_cases": sum(1 for c in cases if c[0] == "J" and " N" in c),
        "relative_null_results": sum(1 for l in rel if l.startswith("rel=NULL")),
        "relative_dot_results": sum(1 for l in rel if l.startswith("rel=0:2e ")),
        "relative_with_up_references": sum(1 for l in rel if l.startswith("rel=0:2e2e")),
        "relative_trailing_separator_results": sum(1 for l in rel if l.split(" ")[0].endswith(",-")),
        "max_argument_bytes": max([len(x) // 2 for c in cases for x in c.split()[1:] if x not in ("-", "N")] or [0]),
    }
    ctx = _CTX[0]
    if ctx is not None:
        d["spec_cases_compared_with_libstdcxx"] = getattr(ctx, "c12_oracle_checked", 0)
        d["spec_disagreements_with_libstdcxx"] = getattr(ctx, "c12_oracle_bad", 0)
    return d
