"""C18 — threads: the glue of zix_thread_create / zix_thread_join (call sequence and status mapping, scripted through
--wrap of the five pthread calls) and real threads (stack extent and usable depth, invocation count, argument,
visibility after join, many concurrent threads)."""
import os

import vlib

PROPS = "Properties_C18"
NDEBUG_TOO = True     # the library\'s normal build compiles assertions out: the same cases run against that build too
EXTRA_PROPS = ["Properties_errno"]   # errno -> status table regenerated from errno_status.c on every run


def REGEN(ctx):
    vlib.regen_errno(ctx)

WRAP = ("-Wl,--wrap=pthread_create,--wrap=pthread_attr_setstacksize,--wrap=pthread_attr_init,"
        "--wrap=pthread_attr_destroy,--wrap=pthread_join,--wrap=sem_post")
RULE = ("S: requested sizes from a boundary set (0, 1, PTHREAD_STACK_MIN+-1, 64K..32M, default+-1, 2^32, 2^40, random) x "
        "pthread_create results (0, every errno of the mapping, unmapped ones, random) x attr_init results, setstacksize "
        "result following glibc's rule; J: join results; T: real threads, sizes 128K..32M x 1..64 (256 thorough) "
        "concurrent threads x body delays x join order; U: sizes the platform may refuse (outcome open, consistency only). "
        "non-trivial = S with a non-zero create result or a size other than the default, every T/U, J with non-zero result")
ASSUMPTIONS = [
    "PARTIAL by design: pthread_create (starts exactly one thread running fn(arg) on a stack of the size carried by the "
    "attribute object), pthread_attr_* and pthread_join (waits for the function to return and synchronises memory) are "
    "modelled by ThreadModel.env_*/istep and trusted; they are only smoke-tested (T/U cases)",
    "pthread_attr_setstacksize is assumed to fail exactly below PTHREAD_STACK_MIN (glibc); its result is ignored by the code",
    "the fake environment of the scripted cases uses a default stack of 8 MiB",
    "real runs: glibc aligns the stack top, so for requests that are not a page multiple the reported extent is compared "
    "with the request rounded down to a page; depth is exercised down to (requested - 64 KiB)",
]

MAPPED = [13, 11, 17, 22, 31, 2, 12, 28, 38, 1, 110, 95]


ENTRY_ERRNOS = [0, 11, 4, 110, 12, 9999]


def body(case):
    return case.split(" ", 1)[1] if case.startswith("@") else case


def _stale(target, sources):
    if not os.path.exists(target):
        return True
    t = os.path.getmtime(target)
    return any(os.path.exists(s) and os.path.getmtime(s) > t for s in sources)


def build(ctx):
    # every portable and POSIX source of the library is linked: thread_posix.c may come to use other modules
    src = os.path.join(vlib.REPO, "src")
    allsrc = sorted(f for f in os.listdir(src) if f.endswith(".c")) + \
        sorted("posix/" + f for f in os.listdir(os.path.join(src, "posix")) if f.endswith(".c"))
    ctx.build_driver("drv_c18", allsrc, flags=[WRAP])
    exe = os.path.join(vlib.OCAML_BUILD, "drv_c18")
    srcs = [os.path.join(vlib.COQ, f) for f in ("SemErrnoModel.v", "ThreadModel.v", "ExtractC18.v")]
    srcs.append(os.path.join(vlib.VERIF, "ocaml", "drv_c18.ml"))
    if _stale(exe, srcs):
        rc, out, err = vlib.sh([os.path.join(vlib.VERIF, "tools", "build_models.sh"), "C18"], timeout=600)
        if rc != 0:
            raise vlib.BuildError("model build failed: " + (out + err)[-500:])


def gen(ctx, seed, tier):
    r = ctx.rng("gen", seed)
    thorough = tier == "thorough"
    M = 1 << 20
    sizes = [0, 1, 100, 16383, 16384, 16385, 16384 + 64, 16384 + 4096 + 64, 65536, 100000, 131072, 1000000, M,
             8 * M - 1, 8 * M, 8 * M + 1, 16 * M, 32 * M, 32 * M + 64, 2**32, 2**40,
             2**63, 2**63 + 1, 2**64 - 8192, 2**64 - 4096, 2**64 - 4095, 2**64 - 100, 2**64 - 2, 2**64 - 1]
    creates = [0, 0, 0] + MAPPED + [4, 35, 75, 131, 3, 9]
    cases = []
    for size in sizes + [r.randrange(1, 64 * M) for _ in range(40 if thorough else 10)]:
        for rc in creates + [r.randint(1, 4095) for _ in range(4)]:
            ri = 0 if r.random() < 0.85 else 12
            rs = 22 if size < 16384 else 0
            cases.append("S %d %d %d %d" % (size, ri, rs, rc))
    # the first pthread_create call fails, a later one would succeed
    for size in [65536, M, 8 * M, 8 * M + 4096, 16 * M, 32 * M, 1000000, 2**32]:
        for e in [11, 12, 22, 1]:
            cases.append("S %d 0 0 %d,0" % (size, e))
    cases += ["S %d 0 0 11,11,0" % (32 * M), "S %d 0 0 11,12" % M]
    cases += ["J %d" % x for x in [0, 0, 3, 22, 35, 1, 11] + [r.randint(1, 200) for _ in range(10)]]
    real_sizes = [131072, 262144, M, 2 * M, 8 * M, 8 * M + 4096, 16 * M, 32 * M, 3 * M + 12288,
                  1000000, 131072 + 64, 5 * M + 64 * 7]   # the last three are not page multiples
    for size in real_sizes:
        cases.append("T %d %d %d %s" % (size, r.randint(1, 6), r.choice([0, 200, 1000]), r.choice("fr")))
    cases.append("T %d %d %d %s" % (262144, 256 if thorough else 64, 300, "r"))
    cases.append("T %d %d %d %s" % (M, 32, 0, "f"))
    for _ in range(40 if thorough else 8):
        cases.append("T %d %d %d %s" % (r.choice(real_sizes), r.randint(1, 16), r.choice([0, 100, 500, 2000]), r.choice("fr")))
    # errno at entry is a dimension of every kind of case (the result must not depend on a stale errno)
    cases = [("@%d %s" % (r.choice(ENTRY_ERRNOS), c)) if r.random() < 0.5 else c for c in cases]
    cases += ["@11 S %d 0 0 0" % M, "@11 S %d 0 0 12" % M, "@11 T %d 2 0 f" % M, "@4 J 0", "@11 T 262144 8 100 r"]
    # two creators interleaved (the second call completes between the first one's setstacksize and pthread_create)
    for a, b in [(16 * M, 65536), (65536, 16 * M), (M, M), (32 * M + 64, 131072), (2**32, 65536), (100000, 8 * M)]:
        cases.append("I %d %d" % (a, b))
    cases += ["I %d %d" % (r.choice(sizes[4:]), r.choice(sizes[4:])) for _ in range(20 if thorough else 6)]
    cases += ["U %d" % s for s in [16384, 16384 + 64, 16384 + 128, 16384 + 64 * 33, 20000, 32768, 65536, 65536 + 64,
                                   100000, 0, 1, 16383]]
    return cases


def corpus(ctx):
    p = os.path.join(vlib.VERIF, "corpus", "C18.txt")
    if not os.path.exists(p):
        return []
    return [l.rstrip("\n") for l in open(p) if l.strip() and not l.startswith("#")]


def targeted(ctx):
    return ["S 33554432 0 0 0", "T 33554432 2 0 f", "T 16777216 1 0 f", "S 1048576 0 0 11", "S 1048576 0 0 12", "J 3",
            "S 1000000 0 0 0", "S 16448 0 0 0", "T 1000000 1 0 f", "U 16448", "S 33554432 0 0 11,0", "@11 S 1048576 0 0 0", "@11 T 1048576 1 0 f"]


def run_impl(ctx, cases):
    """a case that kills the driver (sanitizer report, per-case alarm: a call that never returns) gets a CRASH line;
    the run resumes after it"""
    out, todo, restarts = [], list(cases), 0
    while todo:
        rc, o, err = ctx.run_lines([ctx.path("drv_c18")], todo, timeout=900)
        o = o[:len(todo)]
        out += o
        todo = todo[len(o):]
        if not todo:
            break
        first = err.strip().split("\n")[0][:200] if err.strip() else ""
        out.append("CRASH rc=%d %s" % (rc, first))
        todo = todo[1:]
        restarts += 1
        if restarts > 25:
            out += ["CRASH rc=%d (too many restarts)" % rc] * len(todo)
            break
    return out


def run_model(ctx, cases):
    # I <a> <b>: two creators interleaved.  Each is the model's scripted create (all pthread calls succeed); the line
    # is assembled from the two model lines: the second creator's calls sit between the first one's set and create
    plain = []
    for c in cases:
        t = body(c).split()
        if t[0] == "I":
            plain += ["S %s 0 0 0" % t[1], "S %s 0 0 0" % t[2]]
        else:
            plain.append(c)
    ms, ss = ctx.run_model("drv_c18", plain)
    M, S, k = [], [], 0
    for c in cases:
        t = body(c).split()
        if t[0] != "I":
            M.append(ms[k]); S.append(ss[k]); k += 1
            continue
        ca = ms[k].split(" || ")[1].rsplit(" stack=", 1)
        cb = ms[k + 1].split(" || ")[1].rsplit(" stack=", 1)
        k += 2
        a_calls, b_calls = ca[0].split(), cb[0].replace("a0", "a1").split()
        cut = next(i for i, x in enumerate(a_calls) if x.startswith("set(")) + 1
        calls = a_calls[:cut] + b_calls + a_calls[cut:]
        M.append("st=SUCCESS/SUCCESS started=2 stack_ge=1/1 || %s stack=%s/%s" % (" ".join(calls), ca[1], cb[1]))
        S.append("st=SUCCESS/SUCCESS started=2 stack_ge=1/1")
    return M, S


def l1_extra(case, impl_obs):
    if impl_obs.startswith("CRASH"):
        return False
    t = body(case).split()
    if t[0] == "I":
        return True         # the spec line is complete for these
    st = impl_obs.split()[0] if impl_obs else ""
    if t[0] == "S":
        rcs = [int(x) for x in t[4].split(",")]
        f = dict(x.split("=") for x in impl_obs.split() if "=" in x)
        started, ge = f.get("started"), f.get("stack_ge")
        if not st.startswith("st=") or started not in ("0", "1"):
            return False
        if all(r != 0 for r in rcs) and (st == "st=SUCCESS" or started != "0"):
            return False            # no thread could be created: an error must be reported, nothing runs
        # SUCCESS exactly when one thread was started, and then on a stack at least as large as requested
        if (st == "st=SUCCESS") != (started == "1"):
            return False
        if started == "1" and ge != "1":
            return False
        return True
    if t[0] == "J" and int(t[1]) != 0:
        return st.startswith("st=") and st != "st=SUCCESS"
    return True


def nontrivial(c):
    t = body(c).split()
    if t[0] == "S":
        return t[4] != "0" or int(t[1]) != 8388608
    if t[0] == "J":
        return int(t[1]) != 0
    return True


def stats(cases, impl):
    d = {}
    n_entry = sum(1 for c in cases if c.startswith("@") and not c.startswith("@0 "))
    cases = [body(c) for c in cases]
    for c in cases:
        d[c[0]] = d.get(c[0], 0) + 1
    real = [c.split() for c in cases if c.startswith("T ")]
    return {
        "cases_by_kind": d,
        "cases_with_stale_errno_at_entry": n_entry,
        "scripted_create_failures": sum(1 for c in cases if c.startswith("S ") and c.split()[4] != "0"),
        "scripted_first_create_fails_later_succeeds": sum(1 for c in cases if c.startswith("S ") and "," in c.split()[4]),
        "real_threads_created": sum(int(t[2]) for t in real),
        "real_stack_sizes": sorted(set(int(t[1]) for t in real)),
        "max_concurrent_threads": max([int(t[2]) for t in real] or [0]),
    }
