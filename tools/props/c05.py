"""C05 — single-threaded ring: bounded byte FIFO with all-or-nothing calls and atomic transactions.

case formats (see ocaml/drv_c05.ml / harness/drv_c05.c):
  H <size> <op> ...     one history (ops w:<hex> r:<n> p:<n> s:<n> z b a:<hex> c; W:<n> A:<n> = write / amend of
                        n > capacity bytes, answered on the model side through Properties_C05_huge.v)
  K <size>              capacity of a new ring only (large sizes: ties next_power_of_two)
"""
import itertools
import os
import re
from concurrent.futures import ThreadPoolExecutor

import vlib

PROPS = "Properties_C05"
NDEBUG_TOO = True     # the library\'s normal build compiles assertions out: the same cases run against that build too
# leaf functions / constants of ring.c are re-translated from the C source on every run (tools/translate_leaf.py ->
# coq/gen/Leaf.v, Constants.v) and re-proved equal to the model's (coq/Properties_leaf_ring.v)
EXTRA_PROPS = ["Properties_leaf_ring", "Properties_C05_huge"]


def REGEN(ctx):
    vlib.regen_leaf(ctx, ["Ring"])


RULE = ("one case = one history (ring size + list of calls) or one capacity query; quick: seeded random histories on "
        "ring sizes {1,2,3,4,5,7,8,9,16,17,100,4096,70000,2^k+1}, request sizes 0..capacity+2 biased to exact "
        "fill/drain and to the wrap point, multi-part transactions incl. failing and abandoned ones, a few hostile "
        "sizes near 2^32; plus ALL histories of a fixed length over a call alphabet (exhaustive): quick = length 3 "
        "(sizes 1,2; request sizes 0..3) and length 2 (size 4; 0..5); thorough = length 5 (size 1; 0..2), length 4 "
        "(size 2; 0..3 / size 3; 0..4 / size 4; 0..5), length 5 (size 2; 0..2), length 5 over 17 calls and length 6 "
        "over 10 calls (size 4). non-trivial = a history in which at least one non-empty write/amend and one "
        "non-empty read/peek occur; distinct = distinct case strings")
ASSUMPTIONS = [
    "single thread: the atomic loads/stores of ring.c are modelled as plain accesses (the two-thread case is C04)",
    "both allocations of zix_ring_new succeed (allocation failure is C07); zix_ring_mlock is the identity on the modelled state (its status, which depends on RLIMIT_MEMLOCK, is not compared)",
    "the caller passes buffers of at least the requested size and request sizes are uint32_t values",
    "transaction misuse (amend/commit without begin_write since the last write/commit/reset) is outside the "
    "property; the model still follows the code there and the correspondence (L2) still compares it",
]

SIZES_SMALL = [1, 2, 3, 4, 5, 7, 8, 9, 16, 17]
SIZES_MID = [31, 33, 100, 255, 257, 4096]
SIZES_BIG = [65537, 70000]
WORKERS = 12
_header = ["H", "4"]


def build(ctx):
    ctx.build_driver("drv_c05", ["ring.c", "allocator.c", "errno_status.c", "status.c"])
    if not os.path.exists(os.path.join(vlib.OCAML_BUILD, "drv_c05")):
        rc, out, err = vlib.sh([os.path.join(vlib.VERIF, "tools", "build_models.sh"), "C05"], timeout=900)
        if rc != 0:
            raise vlib.BuildError("model build failed: " + (out + err)[-1500:])


def npot(s):
    p = 1
    while p < s:
        p *= 2
    return p


def hexs(bs):
    return "".join("%02x" % b for b in bs) or "-"


class Sim:
    """generator-side bookkeeping only (used to aim request sizes; never an oracle)"""

    def __init__(self, size):
        self.n = npot(size)
        self.cap = self.n - 1
        self.used = 0
        self.r = 0
        self.w = 0
        self.pend = None      # bytes amended in the open transaction
        self.room = 0
        self.ctr = 0

    def data(self, k):
        out = [(self.ctr + i) % 251 + 1 for i in range(k)]
        self.ctr += k
        return out


def interesting_sizes(sim, r):
    free = sim.cap - sim.used
    to_wrap_r = sim.n - sim.r
    to_wrap_w = sim.n - sim.w
    return [0, 1, 2, free - 1, free, free + 1, sim.used - 1, sim.used, sim.used + 1,
            to_wrap_r - 1, to_wrap_r, to_wrap_r + 1, to_wrap_w - 1, to_wrap_w, to_wrap_w + 1,
            sim.cap, sim.cap + 1, sim.cap + 2, sim.n, r.randint(0, sim.cap + 2)]


def pick_size(sim, r, kind):
    c = interesting_sizes(sim, r)
    free = sim.cap - sim.used
    x = r.random()
    if kind == "w":
        if x < 0.45 and free > 0:
            v = r.randint(1, free)
        elif x < 0.6:
            v = free
        else:
            v = r.choice(c)
    else:
        if x < 0.45 and sim.used > 0:
            v = r.randint(1, sim.used)
        elif x < 0.6:
            v = sim.used
        else:
            v = r.choice(c)
    return max(0, min(v, sim.cap + 2))


def huge_request(sim, r):
    """a request size above the whole buffer, aimed at 32-bit wrap-around of fill + size and head + size"""
    k = r.choice([2**32 - 1, 2**32 - 2, 2**32 - sim.used, 2**32 - sim.used - 1, 2**32 - sim.used + 1, 2**32 - sim.w,
                  2**32 - sim.w - 1, 2**32 - sim.n, 2**32 - sim.n + sim.used, 2**32 - sim.cap + sim.used, 2**31,
                  2**31 + sim.used, sim.n, sim.n + sim.used, 2 * sim.n])
    return max(sim.n, min(k, 2**32 - 1))


def gen_history(r, size, length, hostile=False):
    sim = Sim(size)
    ops = []
    while len(ops) < length:
        x = r.random()
        if x < 0.30 and hostile and r.random() < 0.15:
            ops.append("W:%d" % huge_request(sim, r))      # refused: nothing changes
        elif x < 0.30:
            k = pick_size(sim, r, "w")
            ops.append("w:" + hexs(sim.data(k)))
            if k <= sim.cap - sim.used:
                sim.used += k
                sim.w = (sim.w + k) % sim.n
                sim.pend = None
        elif x < 0.62:
            kind = r.choice("rrrpps")
            if hostile and r.random() < 0.15:
                k = r.choice([2**32 - 1, 2**32 - 2, 2**31, 2**31 + 1, 2**32 - sim.r, 2**32 - sim.r - 1,
                              2**32 - sim.n, 2**32 - sim.n + sim.used, sim.n + sim.used, 2 * sim.n])
                k = max(0, min(k, 2**32 - 1))
            else:
                k = pick_size(sim, r, "r")
            ops.append("%s:%d" % (kind, k))
            if kind != "p" and k <= sim.used:
                sim.used -= k
                sim.r = (sim.r + k) % sim.n
        elif x < 0.64:
            ops.append("m")                 # zix_ring_mlock at any point of a history: the contents stay
        elif x < 0.66:
            ops.append("z")
            sim.used = sim.r = sim.w = 0
            sim.pend = None
        else:
            # a transaction: begin, a few amends (maybe overflowing), reads in between sometimes,
            # then commit or abandon
            ops.append("b")
            room = sim.cap - sim.used
            total = 0
            failed = False
            parts = r.randint(0, 4)
            for _ in range(parts):
                left = room - total
                y = r.random()
                if y < 0.55 and left > 0:
                    k = r.randint(1, left)
                elif y < 0.7:
                    k = left
                elif y < 0.85:
                    k = left + 1
                elif hostile and y < 0.92:
                    ops.append("A:%d" % huge_request(sim, r))
                    failed = True
                    continue
                else:
                    k = max(0, min(r.choice(interesting_sizes(sim, r)), sim.cap + 2))
                ops.append("a:" + hexs(sim.data(k)))
                if k <= left:
                    total += k
                else:
                    failed = True
                if r.random() < 0.12:      # reader activity inside the transaction
                    kind = r.choice("rps")
                    k2 = pick_size(sim, r, "r")
                    ops.append("%s:%d" % (kind, k2))
                    if kind != "p" and k2 <= sim.used:
                        sim.used -= k2
                        sim.r = (sim.r + k2) % sim.n
            z = r.random()
            if (not failed and z < 0.8) or (failed and z < 0.1):
                ops.append("c")
                sim.used += total
                sim.w = (sim.w + total) % sim.n
            # else abandoned
    # rare protocol misuse (outside the property, still compared with the model)
    if r.random() < 0.04:
        ops.insert(r.randint(0, len(ops)), r.choice(["c", "a:" + hexs(sim.data(1))]))
    return "H %d %s" % (size, " ".join(ops))


def k_cases():
    ss = set([0, 1, 2, 3, 70000, 2**31 - 1, 2**31, 2**31 + 1, 2**32 - 1, 3 * 2**29, 0x55555555, 0x01000100])
    for k in range(1, 32):
        ss.update([2**k - 1, 2**k, 2**k + 1])
    for k in range(2, 32):
        ss.add(2**k + 2**(k // 2))
    return ["K %d" % s for s in sorted(ss) if s < 2**32]


def alphabet(maxreq):
    alpha = []
    for k in range(maxreq + 1):
        alpha += [("w", k), ("r", k), ("a", k)]
        if k:
            alpha += [("p", k), ("s", k)]
    return alpha + [("z", 0), ("b", 0), ("c", 0)]


def exhaustive(size, length, maxreq=None, alpha=None):
    """all histories of exactly `length` calls over an alphabet of calls (default: every call with
    every request size 0..maxreq); shorter histories are prefixes of these"""
    alpha = alpha or alphabet(maxreq)
    out = []
    for h in itertools.product(alpha, repeat=length):
        toks = []
        for i, (o, k) in enumerate(h):
            if o in "wa":
                toks.append("%s:%s" % (o, hexs([16 * (i + 1) + j for j in range(k)])))
            elif o in "rps":
                toks.append("%s:%d" % (o, k))
            else:
                toks.append(o)
        out.append("H %d %s" % (size, " ".join(toks)))
    return out


# reduced alphabets for longer exhaustive histories on the 4-byte ring (capacity 3)
A17 = ([(o, k) for o in "wra" for k in (1, 2, 3, 4)] + [("p", 2), ("s", 1), ("z", 0), ("b", 0), ("c", 0)])
A10 = ([(o, k) for o in "wr" for k in (1, 2, 3)] + [("a", 1), ("a", 2), ("b", 0), ("c", 0)])


def gen(ctx, seed, tier):
    r = ctx.rng("gen", seed)
    cases = list(k_cases())
    n_small, n_mid, n_big = (260, 60, 3) if tier == "quick" else (2500, 500, 12)
    for s in SIZES_SMALL:
        for _ in range(n_small):
            cases.append(gen_history(r, s, r.randint(4, 40), hostile=True))
    for s in SIZES_MID:
        for _ in range(n_mid):
            cases.append(gen_history(r, s, r.randint(6, 50), hostile=True))
    for s in SIZES_BIG:
        for _ in range(n_big):
            cases.append(gen_history(r, s, r.randint(3, 8)))
    # 2^k+1 rings: the sizes on which a wrong rounding shows
    for k in (5, 8, 11, 14):
        for _ in range(4):
            cases.append(gen_history(r, 2**k + 1, r.randint(4, 12)))
    if seed == ctx.seed:      # exhaustive parts are the same for every seed: only once
        if tier == "thorough":
            cases += exhaustive(1, 5, 2) + exhaustive(2, 4, 3) + exhaustive(3, 4, 4) + exhaustive(4, 4, 5)
            cases += exhaustive(2, 5, 2) + exhaustive(4, 5, alpha=A17) + exhaustive(4, 6, alpha=A10)
        else:
            cases += exhaustive(1, 3, 2) + exhaustive(2, 3, 3) + exhaustive(4, 2, 5)
    return cases


def targeted(ctx):
    return exhaustive(1, 3, 2) + exhaustive(2, 3, 3) + exhaustive(3, 3, 4) + exhaustive(4, 3, 5) + k_cases()


def corpus(ctx):
    p = os.path.join(vlib.VERIF, "corpus", "C05.txt")
    if not os.path.exists(p):
        return []
    return [l.rstrip("\n") for l in open(p) if l.strip() and not l.startswith("#")]


def _chunks(cases, n):
    return [cases[i:i + n] for i in range(0, len(cases), n)]


def _parallel(fn, cases, chunk=4000):
    if len(cases) <= chunk:
        return fn(cases)
    parts = _chunks(cases, chunk)
    with ThreadPoolExecutor(max_workers=WORKERS) as ex:
        res = list(ex.map(fn, parts))
    return res


def run_impl(ctx, cases):
    def one(cs):
        rc, out, err = ctx.run_lines([ctx.path("drv_c05")], cs)
        if rc != 0 or len(out) != len(cs):
            lines = err.strip().split("\n")
            msg = next((l for l in lines if "ERROR" in l or "error" in l), lines[0] if lines else "")
            msg = re.sub(r"0x[0-9a-fA-F]+", "ADDR", re.sub(r"==\d+==", "", msg))
            msg = " ".join(msg.split()[:6])
            while out and out[-1] == "":
                out.pop()
            out = out[:len(cs)]
            # a line cut short by the crash
            if out and len(out) <= len(cs) and cs[len(out) - 1].startswith("H") and " drain=" not in out[-1]:
                out[-1] = "CRASH rc=%d %s after: %s" % (rc, msg[:160], out[-1][-200:])
            out = out + ["CRASH rc=%d %s" % (rc, msg[:160])] * (len(cs) - len(out))
        return out
    res = _parallel(one, cases)
    if res and isinstance(res[0], list):
        return [l for part in res for l in part]
    return res


def run_model(ctx, cases):
    def one(cs):
        return ctx.run_model("drv_c05", cs)
    res = _parallel(one, cases)
    if isinstance(res, tuple):
        return res
    ms, ss = [], []
    for m, s in res:
        ms += m
        ss += s
    return ms, ss


def nontrivial(c):
    t = c.split()
    if t[0] != "H":
        return False
    wrote = any(x[0] in "wa" and x[1:2] == ":" and x[2:] != "-" for x in t[2:])
    read = any(x[0] in "rp" and x[1:2] == ":" and x[2:] not in ("0", "") for x in t[2:])
    return wrote and read


def tokens(case):
    global _header
    t = case.split()
    if t[0] != "H":
        _header = t
        return t
    _header = t[:2]
    return t[2:]


def untokens(toks):
    if _header[0] != "H":
        return " ".join(_header)
    return " ".join(_header + list(toks))


def stats(cases, impl):
    ops = {}
    fails = 0
    succ = 0
    sizes = {}
    lengths = {}
    for c, out in zip(cases, impl):
        t = c.split()
        if t[0] != "H":
            ops["K"] = ops.get("K", 0) + 1
            continue
        sizes[t[1]] = sizes.get(t[1], 0) + 1
        n = len(t) - 2
        b = "1-4" if n <= 4 else "5-8" if n <= 8 else "9-20" if n <= 20 else "21+"
        lengths[b] = lengths.get(b, 0) + 1
        res = out.split()[1:-1]
        for o, rr in zip(t[2:], res):
            ops[o[0]] = ops.get(o[0], 0) + 1
            ret = rr.split(":")[0]
            if ret == "nomem" or (ret == "0" and o[2:] not in ("0", "-", "")):
                fails += 1
            elif ret not in (".",):
                succ += 1
    return {"calls_by_kind": ops, "calls_refused": fails, "calls_served": succ,
            "histories_by_ring_size": sizes, "history_length": lengths}
