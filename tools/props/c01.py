"""C01 — B-tree is a sorted set under every operation history (src/btree.c)."""
import os

import vlib
from props import btreelib as bt

PROPS = "Properties_C01"
# leaf functions / constants of btree.c are re-translated from the C source on every run (tools/translate_leaf.py ->
# coq/gen/Leaf.v, Constants.v) and re-proved equal to the model's (coq/Properties_leaf_btree.v)
EXTRA_PROPS = ["Properties_leaf_btree"]


def REGEN(ctx):
    vlib.regen_leaf(ctx, ["BTree"])


RULE = ("random histories of insert/remove/find/clear (+ allocation scripts in ~12% of them) at page sizes "
        "64/128/256/4096 over key universes sized for heights 1-4, phases biased to grow/shrink/churn with "
        "ascending/descending/random key patterns, walk (begin..end) after every op for small universes; thorough adds "
        "every history of 4 insert/remove ops over 5 keys on top of a two-level tree at page size 64 (10^4 cases) and bulk "
        "phases of 70 000 keys at page size 4096; "
        "non-trivial = history with at least 5 ops; distinct case strings counted")
ASSUMPTIONS = [
    "comparator = total preorder induced by an integer rank (the driver compares int keys); elements with equal "
    "rank and different identity are exercised (EXISTS keeps the stored pointer); the magnitude of a non-zero result is "
    "-1/1, the key difference, or INT_MIN/INT_MAX (case flags d, x): only the sign may matter",
    "64-bit pointers/size_t (static assert in the driver); iterator indexes are uint16_t and the sources statically reject "
    "LEAF_VALS > 65535 (fix 627c158, checked by C02), so the model's untruncated indexes are exact",
    "elements are opaque pointers: in about half of the histories one element at a time is represented by the NULL pointer in "
    "the C driver (op 'I'); the model is unchanged (elements are abstract)",
    "comparator logs are compared on NDEBUG builds (asserts call the comparator); assert-enabled builds of page "
    "sizes 64 and 128 run the same cases and must agree on everything but comparator counts",
    "histories with allocation failure scripts are checked against the model only (L2); their spec line is '*' "
    "(NO_MEM behaviour belongs to C07)",
    "flag 'a' cases: the driver's allocator numbers requests (refused ones included) and records every block obtained / "
    "released with the entry used; the sequence must equal the event log of the instrumented model coq/BTreeAllocModel.v "
    "(C08 for B-tree pages: coq/Properties_C08_btree.v)",
]


def build(ctx):
    bt.build(ctx)


def corpus(ctx):
    return bt.corpus(ctx, "C01")


def gen(ctx, seed, tier):
    r = ctx.rng("gen", seed)
    cases = []
    if seed == ctx.seed:
        cases += ["%d cfg" % p for p in bt.PAGES]
    quick = tier == "quick"
    plan = {64: 1300 if quick else 8000, 128: 400 if quick else 2500, 256: 160 if quick else 1000, 4096: 48 if quick else 300}
    for page, n in plan.items():
        for _ in range(n):
            # 40% of the histories also carry the allocation trace (flag 'a': every page obtained / released, by request
            # serial, compared with the instrumented model BTreeAllocModel), with allocation scripts in a third of them
            # in half of the histories some element is the NULL pointer (op 'I': elements are opaque void*, so NULL is a
            # legitimate element; at most one at a time, wherever the random history puts it: root leaf, mid-leaf, first
            # slot, separator of an internal page); clear/free must still destroy it exactly once
            null_p = r.choice([0.0, 0.0, 0.1, 0.3])
            # the comparator contract is the SIGN of the result: a quarter of the histories use a comparator that returns
            # the key difference (flag 'd') or INT_MIN / INT_MAX (flag 'x') instead of -1 / 1
            style = r.choice(["", "", "", "", "", "", "d", "x"])
            if r.random() < 0.4:
                cases.append(bt.gen_history(r, page, tier, flags="a" + style, oracle_p=0.35, null_p=null_p).line())
            else:
                cases.append(bt.gen_history(r, page, tier, flags=style or "-", null_p=null_p).line())
    if seed == ctx.seed:
        # a few histories AT the capacity of page size 64 (fix 1a03612: insert is refused with OVERFLOW, nothing else
        # changes); they fail the spec's status clause and are classified as the known finding C01-MAXHEIGHT when the
        # implementation agrees with the model
        for pat in ("asc", "desc", "rand"):
            h = bt.Hist(r, 64, flags="a" if pat == "asc" else "-")
            ks = list(range(1, 420))
            if pat == "desc":
                ks.reverse()
            elif pat == "rand":
                r.shuffle(ks)
            for j, k in enumerate(ks):
                h.ins(k)
                if j % 40 == 0:
                    h.op("w")
            h.op("w")
            for k in ks[:150]:
                h.rem(k)
            h.op("w")
            for k in ks[:60]:
                h.ins(k)
            h.op("w")
            cases.append(h.line())
        for page in bt.PAGES:   # zix_btree_new under every script of its two requests
            for nb in ("N0", "N10", "N11", "N110", "N1"):
                cases.append("%d a %s i1.1 i2.2 r1 w" % (page, nb))
    if not quick and seed == ctx.seed:
        cases += exhaustive_small(5, 6)
        # bulk phases at the default page size: 70 000 ascending / pseudo-random keys, then removal of most
        for mode in ("asc", "rnd"):
            h = bt.Hist(r, 4096, flags="n")   # model only: the list spec is quadratic in the size
            ks = list(range(70000))
            if mode == "rnd":
                r.shuffle(ks)
            for j, k in enumerate(ks):
                h.ins(k)
                if j % 9973 == 0:
                    h.op("w")
            h.op("w")
            r.shuffle(ks)
            for j, k in enumerate(ks[:60000]):
                h.rem(k)
                if j % 9973 == 0:
                    h.op("w")
            h.op("w")
            cases.append(h.line())
    return cases


def exhaustive_small(nkeys, depth):
    """every history of `depth` ops over insert/remove of nkeys keys at page size 64, on top of a prefix that
    fills the tree to two levels (so that splits/merges are in reach)"""
    out = []
    prefix = " ".join("i%d.%d" % (10 * k, k + 1) for k in range(1, 8))
    alphabet = []
    for k in range(nkeys):
        alphabet += ["i%d" % (10 * k + 15), "r%d" % (10 * (k + 1))]

    def rec(ops):
        if len(ops) == depth:
            tagged, tag = [], 100
            for o in ops:
                if o[0] == "i":
                    tag += 1
                    tagged.append("%s.%d" % (o, tag))
                else:
                    tagged.append(o)
                tagged.append("w")
            out.append("64 - %s %s" % (prefix, " ".join(tagged)))
            return
        for a in alphabet:
            rec(ops + [a])
    # 10^depth is too many: depth 4 exhaustively (10^4), deeper ones sampled by the random generator
    depth = min(depth, 4)
    rec([])
    return out


def targeted(ctx):
    """directed histories for the search: fill and drain in ascending / descending / inside-out order at every page
    size (every split, rotate and merge case fires at depth >= 2), with a walk and lookups of all keys in between"""
    out = []
    for page, n in ((64, 150), (128, 400), (256, 1000), (4096, 1200)):
        keys = list(range(1, n + 1))
        orders = [keys, keys[::-1], [keys[(n // 2 + (-1) ** k * ((k + 1) // 2)) % n] for k in range(n)]]
        for ins in orders:
            for rem in orders:
                h = bt.Hist(None, page)
                for j, k in enumerate(ins):
                    h.ins(k)
                    if j % max(1, n // 60) == 0:
                        h.op("w")
                h.op("w")
                for k in keys[::max(1, n // 40)]:
                    h.op("f%d" % k)
                for j, k in enumerate(rem):
                    h.rem(k)
                    if j % max(1, n // 60) == 0:
                        h.op("w")
                h.op("w")
                out.append(h.line())
    return out


def run_impl(ctx, cases):
    return bt.run_impl(ctx, cases)


def run_model(ctx, cases):
    return bt.run_model(ctx, cases)


def nontrivial(c):
    return len(c.split()) >= 7


def tokens(case):
    return case.split()[2:]


def untokens(toks):
    return untokens.head + " " + " ".join(toks)


untokens.head = "64 -"
_orig_tokens = tokens


def tokens(case):  # noqa: F811  (remember the page/flags of the case being shrunk)
    untokens.head = " ".join(case.split()[:2])
    return _orig_tokens(case)


def classify(case, impl, model, spec):
    page = bt.page_of(case)
    if page in bt.PAGES and bt.sim_sizes(case) >= bt.cap(page):
        return "C01-MAXHEIGHT"
    return None


def l1_extra(case, impl_obs):
    """parts of the property that are predicates on the implementation's own output: no element deeper than
    ZIX_BTREE_MAX_HEIGHT levels; comparisons per find within h*(floor(log2 L)+1) with h from the height law"""
    if impl_obs.startswith("CRASH") or impl_obs.startswith("ASSERT-BUILD-DIFFERS"):
        return False          # abort / sanitizer report / failed assertion: never acceptable, whatever the spec says
    if case.endswith(" cfg"):
        return True
    page = bt.page_of(case)
    if page not in bt.PAGES:
        return True
    leaf, _ = bt.cfg(page)
    per_page = bt.ilog2(leaf) + 1
    size = 0
    for t in impl_obs.split():
        f = t.split(":")
        try:
            if f[0] == "i":
                size = int(f[2])
            elif f[0] == "r":
                size = int(f[3])
            elif f[0] in ("c", "C"):
                size = 0
            elif t[0] == "d" and t[1:].isdigit():
                if int(t[1:]) > bt.MAX_HEIGHT:
                    return False
            elif t[0] == "k" and t[1:].isdigit():
                if int(t[1:]) > bt.max_height_bound(size, page) * per_page:
                    return False
        except (ValueError, IndexError):
            return False
    return True


def stats(cases, impl):
    return {"ops": bt.op_histogram(cases), "statuses": bt.status_histogram(impl),
            "cases_by_page_and_depth": bt.depth_histogram(cases, impl),
            "histories_with_allocation_script": sum(1 for c in cases if " O" in c),
            "histories_with_null_element": sum(1 for c in cases if " I" in c),
            "histories_with_allocation_trace": sum(1 for c in cases if "a" in c.split()[1]),
            "allocation_events_compared": sum(l.count(":a") for l in impl if " || " in l)}
