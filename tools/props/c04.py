"""C04 — the ring as a single-producer/single-consumer channel on every schedule.

Proof: coq/Properties_C04.v over the micro-step release/acquire model coq/RingConcModel.v.
Tie to the code: src/ring.c compiled with `clang -fsanitize=thread -c`, memcpy renamed, linked against our
own runtime harness/vtsan.c; for generated ring states and every API call the access trace of the object code
(atomic loads/stores with memory order and value, plain head loads, buffer ranges with bytes) must equal the
access program the extracted model prescribes (L2); return values and bytes must be those of a byte queue (L1).
Search: the same object code run as two coroutines under vtsan.c's scheduler (stale loads, unpublished bytes),
schedules enumerated / sampled; oracle = reads are a prefix of commits, nothing lost, no race, bounded calls."""
import concurrent.futures
import os
import re

import vlib

PROPS = "Properties_C04"
# leaf functions / constants of ring.c are re-translated from the C source on every run (tools/translate_leaf.py ->
# coq/gen/Leaf.v, Constants.v) and re-proved equal to the model's (coq/Properties_leaf_ring.v)
# Properties_C04_huge: a write/amend whose size is >= the ring size is refused whatever its source is, so the model
# driver may run W<n>/A<n>, N <= n <= 2^32-1, with an N-byte stand-in source
EXTRA_PROPS = ["Properties_leaf_ring", "Properties_C04_huge"]


def REGEN(ctx):
    vlib.regen_leaf(ctx, ["Ring"])


RULE = ("rings are created through a guard-page allocator with requested sizes that are powers of two and not (3, 5, 7, 40, 100, 1000, ...; every buffer access is checked against the allocated extent); trace cases: every head pair (r,w) of rings of size 1,2,4,8,16 x every API call with size arguments at and "
        "around the space boundary, transactions (begin, 1-3 amends, commit) incl. failing amends, random call "
        "sequences, random states of sizes 32..4096; write/amend sizes also N..2^32-1 (2^32-1, 2^32-2, 2^32-fill(+-1), "
        "2^32-w, 2^32-N, 2^31, N, N+fill, 2N on empty and non-empty rings, as writes and as amends inside transactions "
        "followed by further amends and the commit): the C driver passes the size with a source block of N+64 bytes that "
        "ends at a PROT_NONE page (a wrongly accepted request faults = failure), the model driver uses an N-byte stand-in "
        "source (Properties_C04_huge: the model's trace/results/memory do not depend on a source of >= N bytes); "
        "read/peek/skip sizes also N..2^32-1 (2^32-1, 2^32-2, 2^32-r(+-1), 2^32-w, 2^32-N, 2^31, 2^31+r, N+rs, 2N on every "
        "head pair, wrapped or not): read/peek get a destination block of N+64 bytes ending at a PROT_NONE page, the model "
        "takes the size as a number; schedule cases: writer/reader programs of <=3 calls on a ring of "
        "size 4 (and 2, 8), all schedules incl. stale loads enumerated depth-first (budgeted in quick, exhaustive in "
        "thorough) plus seeded random schedules; non-trivial = a trace case with a non-zero size argument, or any "
        "schedule case; distinct case strings counted")
ASSUMPTIONS = [
    "PARTIAL BY DESIGN: the theorems are about the explicit release/acquire model of DESIGN.md Appendix B (per-head "
    "modification orders, monotone views, per-cell write/read epochs, sticky race flag); its adequacy with respect to "
    "the C11 memory model, and the compiler's translation of the __atomic builtins, are trusted, not proved",
    "the correspondence shows that ring.c's object code performs exactly the model's access program (kinds, order, "
    "memory orders, values) on the generated states; it is differential testing, and it sees what clang -O1 "
    "-fsanitize=thread instruments (every load/store of ring.c that is not provably thread-local)",
    "zix_ring_mlock and zix_ring_reset (documented as not thread-safe) are outside the model",
    "ring sizes above 4096 are not exercised by the correspondence (the theorems cover all 2^k, k <= 31)",
    "write/amend requests of N..2^32-1 bytes are run on the model side with an N-byte stand-in source; that this gives "
    "the model's answer for every real source of that length is theorem ring_overlong_calls_irrelevant "
    "(coq/Properties_C04_huge.v), re-checked on every run; the C side never supplies more than N+64 source bytes",
]

SRC_EXTRA = ["allocator.c", "errno_status.c"]


def build(ctx):
    obj = ctx.path("ring_tsan.o")
    ctx.cc(ctx.repo_src("ring.c"), obj, flags=["-fsanitize=thread"], sanitize=False, compiler="clang", link=False)
    rc, o, e = vlib.sh(["objcopy", "--redefine-sym", "memcpy=verif_memcpy", "--redefine-sym", "memmove=verif_memmove", obj])
    if rc != 0:
        raise vlib.BuildError("objcopy failed: " + (o + e)[-500:])
    srcs = [os.path.join(vlib.HARNESS, "drv_c04.c"), os.path.join(vlib.HARNESS, "vtsan.c"), obj] + ctx.repo_src(*SRC_EXTRA)
    ctx.cc(srcs, ctx.path("drv_c04"), sanitize=False)
    exe = os.path.join(vlib.OCAML_BUILD, "drv_c04")
    deps = [os.path.join(vlib.COQ, "RingConcModel.v"), os.path.join(vlib.COQ, "ExtractC04.v"),
            os.path.join(vlib.VERIF, "ocaml", "drv_c04.ml")]
    if not os.path.exists(exe) or any(os.path.getmtime(d) > os.path.getmtime(exe) for d in deps):
        rc, o, e = vlib.sh([os.path.join(vlib.VERIF, "tools", "build_models.sh"), "C04"], timeout=600)
        if rc != 0:
            raise vlib.BuildError("model build failed: " + (o + e)[-1500:])
    ctx.c04_stats = {"schedules_run": 0, "schedule_steps": 0, "enumerations_truncated": 0}


# ------------------------------------------------------------------ generators
def req_sizes(k):
    """requested sizes that zix_ring_new rounds up to 2^k"""
    N = 1 << k
    if k == 0:
        return [1]
    lo = N // 2 + 1
    return sorted(set([lo, N - 1, N, (lo + N) // 2]) & set(range(lo, N + 1)))


def ksize(r, k):
    """size token: the power of two itself or a smaller requested size that rounds up to it"""
    req = r.choice(req_sizes(k))
    return "%d" % k if req == (1 << k) else "%d/%d" % (k, req)


U32 = 1 << 32


def huge_sizes(N, fill, w):
    """request sizes >= N aimed at 32-bit wrap-around of fill + size and head + size (fill = bytes the writer sees
    in the ring, w = the write head it would copy to)"""
    c = [U32 - 1, U32 - 2, U32 - fill, U32 - fill - 1, U32 - fill + 1, U32 - w, U32 - N, 1 << 31, N, N + fill, 2 * N]
    return sorted(set(x for x in c if N <= x <= U32 - 1))


def rhuge_sizes(N, r, w):
    """reader-side request sizes >= N aimed at 32-bit wrap-around of r + size (r, w = the heads the reader sees)"""
    rs = (w - r) % N
    c = [U32 - 1, U32 - 2, U32 - r, U32 - r - 1, U32 - r + 1, U32 - w, U32 - N, 1 << 31, (1 << 31) + r, N + rs, 2 * N]
    return sorted(set(x for x in c if N <= x <= U32 - 1))


def ops_for_state(N, r, w, huge_keep=None):
    """single API calls worth trying in state (r, w): sizes at and around the space boundaries;
    huge_keep: None = all over-long request cases, else a predicate deciding which of them to keep (quick tier)"""
    rs = (w - r) % N
    ws = N - 1 - rs
    out = [["S"], ["s"]]
    for n in sorted(set(x for x in (0, 1, ws - 1, ws, ws + 1, N - 1, N, N + 1, N - w, N - w + 1) if x >= 0)):
        out.append(["W%d" % n])
    for n in sorted(set(x for x in (0, 1, rs - 1, rs, rs + 1, N - 1, N, N - r, N - r - 1, N - r + 1) if x >= 0)):
        out += [["R%d" % n], ["P%d" % n], ["K%d" % n]]
    # transactions
    a = max(ws // 2, 0)
    out.append(["B", "A%d" % a, "A%d" % (ws - a), "C", "s"])
    out.append(["B", "A%d" % ws, "A1", "C", "s"])          # second amend fails, commit publishes the first
    out.append(["B", "A1", "S", "B", "A%d" % min(ws, 2), "C", "s"])  # abandoned, then a fresh one
    out.append(["B", "C", "s"])
    # requests of at least the whole ring size, up to 2^32-1: refused, nothing changes
    big = []
    for n in huge_sizes(N, rs, w):
        big.append(["W%d" % n, "s", "S"])
        big.append(["B", "A%d" % n, "C", "s", "P%d" % rs])
    a = min(1, ws)                                           # inside a transaction that has already amended a bytes
    for n in huge_sizes(N, rs + a, (w + a) % N):
        big.append(["B", "A%d" % a, "A%d" % n, "A%d" % (ws - a), "C", "s", "R%d" % (rs + ws)])
    # the same on the reader's side: read / peek / skip of N..2^32-1 bytes are refused, the heads stay
    for n in rhuge_sizes(N, r, w):
        big.append(["R%d" % n, "s"])
        big.append(["P%d" % n, "s"])
        big.append(["K%d" % n, "s", "P%d" % rs])
    out += [c for c in big if huge_keep is None or huge_keep()]
    return out


WOPS = ["W0", "W1", "W2", "W3", "B A1 C", "B A1 A1 C", "B A2 A1 C", "B A1", "S"]
ROPS = ["R0", "R1", "R2", "R3", "P1", "P2", "K1", "K2", "s"]


def sched_programs(r, count, maxcalls=3):
    out = []
    for _ in range(count):
        w = " ".join(r.choice(WOPS) for _ in range(r.randint(1, maxcalls)))
        rd = " ".join(r.choice(ROPS) for _ in range(r.randint(1, maxcalls)))
        out.append((w, rd))
    return out


FIXED_PROGS = [
    ("W1", "R1"), ("W3 W3", "R3 R3"), ("W2 W2 W1", "R2 R1 R2"), ("W3 B A1 A1 C", "R2 P1 K1 R1"),
    ("B A2 A1 C W1", "P3 R3 R1"), ("W3 W1 W2", "K2 R1 R3"), ("B A1 B A2 C", "R1 R1 s"), ("W2 S W2", "s R2 R2"),
]


def rand_huge(r, N):
    """an over-long request size for the random sequences (the fill is not tracked there: 2^32-j for every j <= N)"""
    return r.choice([U32 - 1, U32 - 2, U32 - N, 1 << 31, N, 2 * N, U32 - r.randint(1, N), U32 - r.randint(1, N),
                     r.randint(N, U32 - 1)])


def gen(ctx, seed, tier):
    r = ctx.rng("gen", seed)
    cases = []
    kmax_all = 4
    for k in range(0, kmax_all + 1):
        N = 1 << k
        for rh in range(N):
            for wh in range(N):
                keep = (lambda: r.random() < 0.3) if (tier == "quick" and k >= 3) else None
                for ops in ops_for_state(N, rh, wh, keep):
                    if k == 4 and tier == "quick" and r.random() < 0.6:
                        continue
                    cases.append("T %s %d %d %s" % (ksize(r, k), rh, wh, " ".join(ops)))
    # random sequences on small rings
    for _ in range(600 if tier == "quick" else 4000):
        k = r.choice([1, 2, 2, 3, 3, 4])
        N = 1 << k
        seq = []
        for _ in range(r.randint(2, 8)):
            c = r.choice(["W", "W", "R", "R", "P", "K", "S", "s", "T"])
            n = r.choice([0, 1, 2, 3, N // 2, N - 1, N, r.randint(0, N + 1)])
            if c in "WRPK" and r.random() < 0.12:
                n = rand_huge(r, N)
            if c == "T":
                seq += ["B"] + ["A%d" % (rand_huge(r, N) if r.random() < 0.12 else r.choice([0, 1, 2, N // 2]))
                                for _ in range(r.randint(0, 3))] + (["C"] if r.random() < 0.8 else [])
            elif c in "Ss":
                seq.append(c)
            else:
                seq.append("%s%d" % (c, n))
        cases.append("T %s %d %d %s" % (ksize(r, k), r.randrange(N), r.randrange(N), " ".join(seq)))
    # larger rings, random states
    # fixed non-power-of-two requests 3, 5, 40, 100, 1000: fill the ring so the write head passes index `size`
    for (k, req) in [(2, 3), (3, 5), (6, 40), (7, 100), (10, 1000)]:
        N = 1 << k
        for rh in (0, 1, req - 1, req % N, N - 1):
            cases.append("T %d/%d %d %d W%d s R%d W%d R%d" % (k, req, rh, rh, N - 1, N - 1, N - 1, N - 1))
            cases.append("T %d/%d %d %d B A%d A%d C P%d K1 R%d" % (k, req, rh, rh, N // 2, N // 2 - 1, N - 1, N - 2))
    big = [(5, 60), (6, 60), (8, 40), (10, 12), (12, 3)] if tier == "quick" else [(5, 300), (6, 300), (8, 200), (10, 60), (12, 12)]
    for k, cnt in big:
        N = 1 << k
        for _ in range(cnt):
            rh, wh = r.randrange(N), r.randrange(N)
            if r.random() < 0.3:
                rh = r.choice([0, N - 1, N - 2, N // 2])
            rs = (wh - rh) % N
            ws = N - 1 - rs
            hs = huge_sizes(N, rs, wh)
            rhs = rhuge_sizes(N, rh, wh)
            op = r.choice(["W%d s" % r.choice(hs), "B A%d A%d C s" % (r.choice(hs), ws),
                           "R%d s" % r.choice(rhs), "P%d s" % r.choice(rhs), "K%d s R%d" % (r.choice(rhs), rs),
                           "W%d" % ws, "W%d" % (ws + 1), "W%d" % r.randint(0, N), "R%d" % rs, "R%d" % (rs + 1),
                           "P%d" % r.randint(0, N), "K%d" % rs, "R%d" % r.randint(0, N), "S", "s",
                           "B A%d A%d C s" % (ws // 2, ws - ws // 2), "W%d R%d" % (ws, rs + ws)])
            cases.append("T %s %d %d %s" % (ksize(r, k), rh, wh, op))
    # schedule search on the unchanged code (must all be ok)
    cases += sched_cases(ctx, seed, tier, broken=False)
    return cases


def sched_cases(ctx, seed, tier, broken):
    r = ctx.rng("sched", seed, broken)
    out = []
    if tier == "quick" and not broken:
        for (w, rd) in FIXED_PROGS[:4]:
            out.append("X %s %s / %s / E 1200000" % (r.choice(["2", "2/3"]), w, rd))
        for (w, rd) in FIXED_PROGS[4:] + sched_programs(r, 20):
            out.append("X %s %s / %s / S %d 40000" % (r.choice(["1", "2", "2/3", "3", "3/5"]), w, rd, r.randrange(1 << 30)))
        out.append("X 2/3 W3 W3 W2 / R3 R3 R2 / S %d 40000" % r.randrange(1 << 30))
        out.append("X 3/5 W3 W3 W3 / R3 R3 R3 / S %d 40000" % r.randrange(1 << 30))
    elif tier == "quick":
        for (w, rd) in FIXED_PROGS:
            out.append("X %s %s / %s / E 400000" % (r.choice(["2", "2/3"]), w, rd))
        for (w, rd) in sched_programs(r, 24):
            out.append("X %s %s / %s / S %d 20000" % (r.choice(["1", "2", "2/3", "3", "3/5"]), w, rd, r.randrange(1 << 30)))
    else:
        # exhaustive: every schedule (incl. every stale-load choice) of programs of <= 3 calls per side, ring size 4
        for (w, rd) in FIXED_PROGS:
            out.append("X %s %s / %s / E 60000000" % (r.choice(["2", "2/3"]), w, rd))
        for (w, rd) in sched_programs(r, 150 if not broken else 40):
            out.append("X %s %s / %s / E 60000000" % (r.choice(["2", "2/3"]), w, rd))
        for (w, rd) in sched_programs(r, 30 if not broken else 10):
            out.append("X %s %s / %s / E 20000000" % (r.choice(["1", "3", "3/5", "3/7"]), w, rd))
        for (w, rd) in sched_programs(r, 60 if not broken else 20, maxcalls=6):
            out.append("X %s %s / %s / S %d 1500000" % (r.choice(["1", "2", "2/3", "3", "3/5"]), w, rd, r.randrange(1 << 30)))
    return out


def targeted(ctx):
    """search used when a proof or the trace correspondence is broken"""
    return sched_cases(ctx, ctx.seed, ctx.tier, broken=True)


def corpus(ctx):
    p = os.path.join(vlib.VERIF, "corpus", "C04.txt")
    if not os.path.exists(p):
        return []
    return [l.strip() for l in open(p) if l.strip() and not l.startswith("#")]


# ------------------------------------------------------------------ running
def _run_chunk(ctx, chunk, timeout):
    rc, out, err = ctx.run_lines([ctx.path("drv_c04")], chunk, timeout=timeout)
    if len(out) < len(chunk):
        why = "CRASH rc=%d %s" % (rc, (err.strip().split("\n") or [""])[-1][:160])
        out = out + [why] * (len(chunk) - len(out))
    return out[:len(chunk)], err


def run_impl(ctx, cases):
    # trace cases in a few chunks, every schedule case in its own process, all in parallel
    t_idx = [i for i, c in enumerate(cases) if not c.startswith("X")]
    x_idx = [i for i, c in enumerate(cases) if c.startswith("X")]
    jobs = []
    nchunk = 8
    for j in range(nchunk):
        part = t_idx[j::nchunk]
        if part:
            jobs.append(part)
    jobs += [[i] for i in x_idx]
    res = [None] * len(cases)
    timeout = 200 if ctx.tier == "quick" else 1500
    with concurrent.futures.ThreadPoolExecutor(max_workers=14) as ex:
        futs = {ex.submit(_run_chunk, ctx, [cases[i] for i in part], timeout): part for part in jobs}
        for f in concurrent.futures.as_completed(futs):
            part = futs[f]
            out, err = f.result()
            for i, l in zip(part, out):
                res[i] = l
            st = getattr(ctx, "c04_stats", None)
            if st is not None:
                for m in re.finditer(r"runs (\d+) steps (\d+)", err):
                    st["schedules_run"] += int(m.group(1))
                    st["schedule_steps"] += int(m.group(2))
                st["enumerations_truncated"] += len(re.findall(r"truncated 1", err))
    return res


def run_model(ctx, cases):
    return ctx.run_model("drv_c04", cases)


def nontrivial(c):
    if c.startswith("X"):
        return True
    return any(re.fullmatch(r"[WARPK][1-9]\d*", t) for t in c.split()[4:])


def stats(cases, impl):
    def overlong(c):
        t = c.split()
        if t[0] != "T":
            return False
        N = 1 << int(t[1].split("/")[0])
        return any(x[0] in "WARPK" and x[1:].isdigit() and int(x[1:]) >= N for x in t[4:])
    d = {"trace_cases": sum(c.startswith("T") for c in cases),
         "trace_cases_with_overlong_request": sum(overlong(c) for c in cases),
         "schedule_cases": sum(c.startswith("X") for c in cases),
         "trace_cases_with_wraparound_copy": sum(1 for l in impl if re.search(r"[rw]@\d+:[0-9a-f]+ [rw]@0:", l)),
         "failed_calls_seen": sum(1 for l in impl if re.search(r"\b[wrpk]=0\b|a=2", l.split(" || ")[0]))}
    return d


def check(ctx):
    rc = vlib.standard_check(ctx, __import__(__name__, fromlist=["x"]))
    # add the schedule-search counters to the evidence written by standard_check
    try:
        import json
        p = os.path.join(vlib.VERIF, "evidence", ctx.pid + ".json")
        ev = json.load(open(p))
        ev["coverage"].setdefault("distribution", {}).update(getattr(ctx, "c04_stats", {}))
        json.dump(ev, open(p, "w"), indent=1)
    except Exception:
        pass
    return rc
