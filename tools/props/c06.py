"""C06 — ZixTree (AVL with parent pointers): balanced sorted (multi)set with stable iterators.

Case = one line: `d0|d1[z] op op ...` (see ocaml/drv_c06.ml; z = the C driver stores one key-0 element as NULL).  Identities are the serial numbers of
the insert calls, so every case is self-contained and any sub-sequence of a case is a case."""
import os

import vlib

PROPS = "Properties_C06"
RULE = ("seeded generator of operation histories (interleaved insert/remove/find/iterator ops, both duplicate "
        "policies, small key universes so that equal keys occur, ascending/descending/zigzag/Fibonacci-tree "
        "builders that force every rotation case of insertion and multi-rotation removals, allocation failures); about "
        "half of the histories that insert key 0 run in NULL-element mode (policy d?z: the C driver stores that element "
        "as the NULL pointer - elements are opaque void* - and it is found, dereferenced, removed incl. as the last "
        "element, or still present at zix_tree_free), plus every history of length <= 4 in that mode; "
        "every history of length <= 4 (quick) / <= 5 (thorough) over a 9-letter op alphabet, both policies; distinct case strings with at "
        "least one insert and one remove counted as non-trivial")
ASSUMPTIONS = [
    "comparator = total preorder induced by an integer rank of the element (driver: the key); it and the destroy "
    "function are pure functions of their arguments",
    "the caller passes zix_tree_remove an iterator of a live element of this tree (model: BAD_ARG otherwise, never "
    "exercised on the C side)",
    "parent-pointer stepping of zix_tree_iter_next/prev: the theorems of Properties_C06 are about the functional "
    "tree (in-order neighbour by descent with the nearest left-/right-ancestor); coq/Properties_C06_heap.v proves "
    "that the pointer-level model coq/AvlHeapModel.v (heap of nodes with parent/left/right links, every pointer "
    "assignment of tree.c transcribed) refines it for all histories and that parent-pointer stepping there is "
    "in-order stepping; the pointer-level model reads NULL/0 and writes nothing when it dereferences NULL or a "
    "freed node (proved never to happen on the paths taken from a represented tree; for the C code this is "
    "observed under ASan only); the correspondence compares iter_next and iter_prev from the held iterator of "
    "EVERY live node after every insert/remove (trees of up to 24 nodes; token L), every n/p step and all walks "
    "against the extracted pointer-level model; the model driver also cross-checks the two models on every case "
    "(token HEAPDIFF on any disagreement); trees above 24 nodes have their parent links exercised by the walks, "
    "n/p steps and steered paths only",
    "zix_tree_size cannot wrap (size = number of allocated nodes < 2^64)",
]

_xstats = {}


PROPS_HEAP = "Properties_C06_heap"     # the pointer-level refinement (parent links), second property file


def check(ctx):
    """standard flow, with the proof step compiling BOTH property files (functional model + heap refinement)"""
    import sys
    one = ctx.proof_step

    def both(props_module=None, regen=None, timeout=900):
        pr = one(props_module, regen=regen, timeout=timeout)
        extra = one(PROPS_HEAP, timeout=timeout)
        pr = {"file": pr["file"] + " + " + extra["file"], "theorems": pr["theorems"] + extra["theorems"],
              "obligations": pr["obligations"] + extra["obligations"],
              "discharged": pr["discharged"] + extra["discharged"], "ok": pr["ok"] and extra["ok"],
              "axioms": sorted(set(pr["axioms"] + extra["axioms"])), "log": pr["log"] + extra["log"]}
        ctx.proof = pr
        return pr

    ctx.proof_step = both
    return vlib.standard_check(ctx, sys.modules[__name__])


def _stale(target, sources):
    if not os.path.exists(target):
        return True
    t = os.path.getmtime(target)
    return any(os.path.exists(s) and os.path.getmtime(s) > t for s in sources)


def build(ctx):
    extra = os.environ.get("C06_EXTRA_CFLAGS", "").split()     # experiments only (e.g. -DNDEBUG)
    ctx.build_driver("drv_c06", ["tree.c", "allocator.c", "status.c"], flags=extra)
    ctx.c06_verify = None
    if ctx.tier == "thorough":
        # cross-check build: tree.c's own ZIX_TREE_VERIFY / ZIX_TREE_HYPER_VERIFY mode (order, parent links,
        # balance = height difference asserted by the library after every insert/remove)
        try:
            ctx.build_driver("drv_c06", ["tree.c", "allocator.c", "status.c"], out=ctx.path("drv_c06_verify"),
                             flags=extra + ["-DZIX_TREE_VERIFY", "-DZIX_TREE_HYPER_VERIFY", "-DC06_VERIFY_BUILD",
                                            "-include", "stdio.h", "-include", "stdbool.h"])
            ctx.c06_verify = ctx.path("drv_c06_verify")
        except vlib.BuildError as e:
            ctx.notes.append("ZIX_TREE_VERIFY cross-check build failed (not part of the check): " + str(e)[-200:])
    exe = os.path.join(vlib.OCAML_BUILD, "drv_c06")
    srcs = [os.path.join(vlib.COQ, f) for f in ("AvlModel.v", "AvlHeapModel.v", "AvlSpec.v", "ExtractC06.v")]
    srcs.append(os.path.join(vlib.VERIF, "ocaml", "drv_c06.ml"))
    if _stale(exe, srcs):
        rc, out, err = vlib.sh([os.path.join(vlib.VERIF, "tools", "build_models.sh"), "C06"], timeout=900)
        if rc != 0:
            raise vlib.BuildError("model driver build failed: " + (out + err)[-1500:])


# ------------------------------------------------------------------ generator
class Sim:
    """just enough of the spec to emit well-formed histories (which ids are live)"""

    def __init__(self, dup):
        self.dup = dup
        self.n = 0
        self.live = {}     # id -> key
        self.ops = []

    def ins(self, k, fail=False):
        i = self.n
        self.n += 1
        self.ops.append(("I" if fail else "i") + str(k))
        if not self.dup and k in self.live.values():
            return None
        if fail:
            return None
        self.live[i] = k
        return i

    def rem(self, i):
        self.ops.append("r%d" % i)
        self.live.pop(i, None)

    def op(self, s):
        self.ops.append(s)

    def line(self):
        # sets: one history in four inserts without the optional iterator out-parameter (flag q)
        q = "q" if (not self.dup and (len(self.ops) * 7 + sum(map(len, self.ops))) % 4 == 0) else ""
        return ("d1 " if self.dup else "d0" + q + " ") + " ".join(self.ops)


def fib_tree_keys(h):
    """keys (in-order ranks) of a minimal AVL (Fibonacci) tree of height h in BFS order; the deeper
    subtree alternates sides by `flip` so both mirror images occur"""
    def build(h, lo, flip):
        # returns (nested (key, left, right), size)
        if h == 0:
            return None, 0
        hl, hr = (h - 1, h - 2) if not flip else (h - 2, h - 1)
        hl, hr = max(hl, 0), max(hr, 0)
        l, nl = build(hl, lo, flip)
        key = lo + nl
        r, nr = build(hr, key + 1, flip)
        return (key, l, r), nl + 1 + nr
    return build


def bfs(tree):
    out, q = [], [tree]
    while q:
        t = q.pop(0)
        if t is None:
            continue
        out.append(t[0])
        q.append(t[1])
        q.append(t[2])
    return out


def sprinkle(r, s, p=0.25):
    """iterator / find / walk ops at random"""
    if s.live and r.random() < p:
        i = r.choice(list(s.live))
        s.op(r.choice(["g", "n", "p", "n", "p"]) + str(i))
    if r.random() < p / 2:
        s.op("f%d" % r.randint(0, 12))
    if r.random() < p / 6:
        s.op("w")
    if r.random() < p / 10:
        s.op("D")


def gen_random(r, nops, universe, dup, p_ins=0.5, p_fail=0.03):
    s = Sim(dup)
    for _ in range(nops):
        x = r.random()
        if x < p_ins or not s.live:
            s.ins(r.randint(0, universe), fail=(r.random() < p_fail))
        elif x < p_ins + 0.3:
            s.rem(r.choice(list(s.live)))
        elif x < p_ins + 0.4:
            s.op("f%d" % r.randint(-1, universe + 1))
        else:
            sprinkle(r, s, 1.0)
    return s.line()


def gen_ordered(r, n, order, dup, removal):
    s = Sim(dup)
    if order == "asc":
        keys = list(range(n))
    elif order == "desc":
        keys = list(range(n, 0, -1))
    elif order == "zigzag":       # outside-in: 0, n, 1, n-1, ...  (forces double rotations)
        keys = []
        lo, hi = 0, n
        while lo <= hi:
            keys.append(lo)
            if hi != lo:
                keys.append(hi)
            lo, hi = lo + 1, hi - 1
    elif order == "zigzag2":      # inside-out
        keys = []
        mid = n // 2
        for d in range(n):
            keys.append(mid + (d + 1) // 2 * (1 if d % 2 else -1))
    else:                          # equal keys only (duplicates) or pairs
        keys = [r.randint(0, 2) for _ in range(n)]
    ids = []
    for k in keys:
        i = s.ins(k)
        if i is not None:
            ids.append(i)
        sprinkle(r, s, 0.1)
    s.op("w")
    if removal == "asc":
        order_ids = list(ids)
    elif removal == "desc":
        order_ids = list(reversed(ids))
    elif removal == "bykey":
        order_ids = sorted(ids, key=lambda i: (s.live[i], i))
    elif removal == "bykeydesc":
        order_ids = sorted(ids, key=lambda i: (-s.live[i], -i))
    else:
        order_ids = list(ids)
        r.shuffle(order_ids)
    stop = len(order_ids) if r.random() < 0.6 else r.randint(0, len(order_ids))
    for i in order_ids[:stop]:
        s.rem(i)
        sprinkle(r, s, 0.15)
        if r.random() < 0.1:
            s.ins(r.randint(0, n))
    return s.line()


def gen_fib(r, h, flip, dup):
    """minimal AVL tree built without any rotation, then removals from the shallow side: each can
    cascade rotations up to the root"""
    t, n = fib_tree_keys(h)(h, 0, flip)
    s = Sim(dup)
    ids = {}
    for k in bfs(t):
        ids[k] = s.ins(2 * k)
    s.op("D")
    keys = sorted(ids)
    mode = r.choice(["shallow", "deep", "random", "root"])
    for step in range(r.randint(1, max(1, n))):
        if not keys:
            break
        if mode == "shallow":
            k = keys[-1] if not flip else keys[0]
        elif mode == "deep":
            k = keys[0] if not flip else keys[-1]
        elif mode == "root":
            k = keys[len(keys) // 2] if r.random() < 0.5 else r.choice(keys)
        else:
            k = r.choice(keys)
        keys.remove(k)
        s.rem(ids[k])
        if r.random() < 0.3:
            s.op("D")
        sprinkle(r, s, 0.1)
    return s.line()


def exhaustive(maxlen, null=False):
    """null=True: the NULL-element variants (policy d0z/d1z, smallest key 0 = the element stored as NULL pointer)"""
    alpha = ["i1", "i2", "i3", "i2", "r0", "r1", "r2", "r3", "f2"]
    alpha = list(dict.fromkeys(alpha)) + ["I2"]
    pols = ("d0", "d1")
    if null:
        alpha = ["i0" if a == "i1" else a for a in alpha]
        pols = ("d0z", "d1z")
    out = []

    def rec(prefix, depth):
        if prefix:
            for d in pols:
                out.append(d + " " + " ".join(prefix))
        if depth == maxlen:
            return
        for a in alpha:
            # prune: a remove/find as first op is uninteresting
            if not prefix and a[0] != "i":
                continue
            rec(prefix + [a], depth + 1)
    rec([], 0)
    return out


def nullify(r, cases, p=0.5):
    """NULL-element mode for a fraction of the generated histories: elements are opaque void* and NULL is a legitimate
    one, so the C driver stores the first live key-0 element as the NULL pointer (models unchanged)"""
    out = []
    for c in cases:
        t = c.split(" ", 1)
        if r.random() < p and len(t) == 2 and any(x in ("i0", "I0") for x in t[1].split()):
            c = t[0] + "z " + t[1]
        out.append(c)
    return out


def gen(ctx, seed, tier):
    r = ctx.rng("gen", seed)
    thorough = (tier == "thorough")
    cases = []
    # ordered builders: every rotation case of insertion, then removals in several orders
    sizes = [1, 2, 3, 4, 5, 6, 7, 8, 10, 13, 16, 24, 33] + ([64, 100, 257] if thorough else [48])
    for order in ("asc", "desc", "zigzag", "zigzag2", "equal"):
        for n in sizes:
            for removal in ("asc", "desc", "bykey", "bykeydesc", "random"):
                for dup in (False, True):
                    if order == "equal" and not dup and n > 8:
                        continue
                    cases.append(gen_ordered(r, n, order, dup, removal))
    # Fibonacci trees
    for h in range(2, 11 if thorough else 9):
        for flip in (False, True):
            for _ in range(20 if thorough else 5):
                cases.append(gen_fib(r, h, flip, r.random() < 0.5))
    # random interleavings
    n_small, n_mid, n_big = (40000, 10000, 300) if thorough else (6000, 1500, 40)
    for _ in range(n_small):
        cases.append(gen_random(r, r.randint(3, 40), r.choice([2, 3, 5, 8]), r.random() < 0.5))
    for _ in range(n_mid):
        cases.append(gen_random(r, r.randint(40, 250), r.choice([4, 8, 20, 60, 1000]), r.random() < 0.5,
                                p_ins=r.choice([0.35, 0.5, 0.6])))
    for _ in range(n_big):
        cases.append(gen_random(r, r.randint(800, 2500), r.choice([30, 500, 100000]), r.random() < 0.5,
                                p_ins=r.choice([0.45, 0.55])))
    cases = nullify(ctx.rng("nullmode", seed), cases)
    if seed == ctx.seed:
        cases += exhaustive(5 if thorough else 4)
        cases += exhaustive(4, null=True)
    return cases


def targeted(ctx):
    r = ctx.rng("targeted")
    out = exhaustive(4) + exhaustive(3, null=True)
    for h in range(2, 9):
        for flip in (False, True):
            out.append(gen_fib(r, h, flip, True))
    return out


def corpus(ctx):
    p = os.path.join(vlib.VERIF, "corpus", "C06.txt")
    if not os.path.exists(p):
        return []
    return [l.rstrip("\n") for l in open(p) if l.strip() and not l.startswith("#")]


# ------------------------------------------------------------------ running
def run_impl(ctx, cases):
    out = _run_driver(ctx, ctx.path("drv_c06"), cases)
    if getattr(ctx, "c06_verify", None):
        ver = _run_driver(ctx, ctx.c06_verify, cases)
        for i, (a, b) in enumerate(zip(out, ver)):
            # the library's verify() calls the comparator itself, so insert's comparator log differs by design
            if _strip_cmplog(a) != _strip_cmplog(b):
                out[i] = "VERIFY-BUILD-DIFFERS " + b[:200]
        _xstats["verify_build_cases"] = _xstats.get("verify_build_cases", 0) + len(ver)
    return out


def _strip_cmplog(line):
    parts = line.split(" || ")
    if len(parts) != 2:
        return line
    toks = ["c?" if (t[0] == "c" and all(ch in "0123456789." for ch in t[1:])) else t for t in parts[1].split()]
    return parts[0] + " || " + " ".join(toks)


def _run_driver(ctx, exe, cases):
    """the driver handles all cases in one process; if it dies (assert, sanitizer, watchdog) the case
    that killed it is reported as CRASH and the driver is restarted on the rest"""
    out = []
    rest = list(cases)
    restarts = 0
    while rest:
        rc, lines, err = ctx.run_lines([exe], rest, timeout=1200)
        lines = [l for l in lines if l != ""]
        if rc == 0 and len(lines) == len(rest):
            out += lines
            break
        good = [l for l in lines[:len(rest)] if " || " in l]
        out += good
        why = (err.strip().split("\n") or [""])
        msg = next((w for w in why if "ERROR" in w or "Assertion" in w or "runtime error" in w), why[0] if why else "")
        out.append("CRASH rc=%d %s" % (rc, msg.strip()[:160]))
        rest = rest[len(good) + 1:]
        restarts += 1
        if restarts > 50:
            out += ["CRASH (not run: too many crashes)"] * len(rest)
            break
    return out


def run_model(ctx, cases):
    exe = os.path.join(vlib.OCAML_BUILD, "drv_c06")
    if not os.path.exists(exe):
        raise vlib.BuildError("model driver %s missing: run `make -C /verif setup`" % exe)
    rc, out, err = ctx.run_lines([exe], cases, timeout=1200)
    if rc != 0:
        raise vlib.BuildError("model driver drv_c06 failed rc=%d: %s" % (rc, err[-2000:]))
    ms = [l[2:] for l in out if l.startswith("M ")]
    ss = [l[2:] for l in out if l.startswith("S ")]
    xs = [l[2:] for l in out if l.startswith("X")]
    if len(ms) != len(cases) or len(ss) != len(cases):
        raise vlib.BuildError("model driver drv_c06: %d cases, %d M lines, %d S lines" % (len(cases), len(ms), len(ss)))
    if "rot" not in _xstats:            # statistics of the first (= main correspondence) run only
        rot = {}
        per_remove = {}
        for x in xs:
            for grp in x.strip().split(","):
                if not grp:
                    continue
                codes = grp[1:].split(".")
                for code in codes:
                    rot[code] = rot.get(code, 0) + 1
                if grp[0] == "r":
                    per_remove[len(codes)] = per_remove.get(len(codes), 0) + 1
        _xstats["rot"] = rot
        _xstats["per_remove"] = per_remove
    return ms, ss


def _fib(n):
    a, b = 0, 1
    for _ in range(n):
        a, b = b, a + b
    return a


def l1_extra(case, impl_obs):
    """the balance clause: a find that made n comparisons in a tree of size s must satisfy fib(n+2) <= s+1
    (theorem avl_find_cost); the deepest root-to-node path h reported by D likewise (avl_height_fib)"""
    for t in impl_obs.split():
        if t.startswith("fc") or t.startswith("D:h"):
            try:
                n, s = t[2:].split("/") if t.startswith("fc") else t[3:].split("/")
                if _fib(int(n) + 2) > int(s) + 1:
                    return False
            except ValueError:
                return False
    return True


def nontrivial(c):
    t = c.split()
    return any(x[0] in "iI" for x in t[1:]) and any(x[0] == "r" for x in t[1:])


_policy = ["d1"]


def tokens(case):
    t = case.split()
    _policy[0] = t[0]
    return t[1:]


def untokens(toks):
    return " ".join([_policy[0]] + list(toks))


ROT_NAMES = {"10": "left_right(r=-1)", "11": "left_right(r=0)", "12": "left_right(r=+1)",
             "20": "right(q=-1)", "21": "right(q=0)",
             "30": "right_left(r=-1)", "31": "right_left(r=0)", "32": "right_left(r=+1)",
             "41": "left(q=0)", "42": "left(q=+1)"}


def stats(cases, impl):
    d = {"cases_dup_allowed": sum(c.startswith("d1") for c in cases),
         "cases_dup_refused": sum(c.startswith("d0") for c in cases),
         "ops_total": sum(len(c.split()) - 1 for c in cases),
         "max_ops_in_case": max([len(c.split()) - 1 for c in cases] or [0])}
    cnt = {}
    rm = {"leaf": 0, "one_child": 0, "two_children": 0, "root_leaf": 0, "root_one_child": 0, "root_two_children": 0}
    for l in impl:
        parts = l.split(" || ")
        for t in parts[0].split():
            f = t.split(":")
            if f[0] in ("i", "r", "f") and len(f) > 1:
                k = f[0] + ":" + f[1]
                cnt[k] = cnt.get(k, 0) + 1
            elif f[0] in ("g", "n", "p", "w", "D"):
                cnt[f[0]] = cnt.get(f[0], 0) + 1
        if len(parts) > 1:
            for t in parts[1].split():
                if len(t) >= 2 and t[0] == "k" and t[1] in "012":
                    name = ["leaf", "one_child", "two_children"][int(t[1])]
                    if t.endswith("R"):
                        name = "root_" + name
                    rm[name] += 1
    d["op_results"] = cnt
    # NULL-element mode (policy d?z): what happened to the element stored as the NULL pointer
    nz = {"cases": 0, "cases_with_a_NULL_element": 0, "removed": 0, "removed_as_last_element": 0, "present_at_free": 0}
    for c, l in zip(cases, impl):
        t = c.split()
        if not t or "z" not in t[0]:
            continue
        nz["cases"] += 1
        obs = l.split(" || ")[0].split()
        k, null_id, had = 0, -1, False
        nid = 0
        for op in t[1:]:
            if k >= len(obs):
                break
            tok = obs[k]
            k += 2 if op[0] == "f" else 1
            if op[0] in "iI":
                if op[1:] == "0" and null_id < 0 and tok.startswith("i:OK:"):
                    null_id, had = nid, True
                nid += 1
            elif op[0] == "r" and null_id >= 0 and op[1:] == str(null_id) and tok.startswith("r:OK"):
                nz["removed"] += 1
                nz["removed_as_last_element"] += tok.endswith(":s0")
                null_id = -1
        nz["cases_with_a_NULL_element"] += had
        nz["present_at_free"] += null_id >= 0
    d["null_element_mode"] = nz
    # parent-link sweeps (token L<id>next.../<id>prev...): sweeps and single next/prev steps compared with the
    # pointer-level model
    sweeps = steps = biggest = 0
    for l in impl:
        parts = l.split(" || ")
        if len(parts) > 1:
            for t in parts[1].split():
                if t[0] == "L" and "/" in t:
                    sweeps += 1
                    n = t.count(">")
                    steps += n
                    biggest = max(biggest, n // 2)
    d["parent_link_sweeps"] = {"sweeps": sweeps, "next_prev_steps_compared": steps, "largest_tree_swept": biggest}
    d["removal_targets"] = rm
    d["rotation_cases_in_model_runs"] = {ROT_NAMES.get(k, k): v for k, v in sorted(_xstats.get("rot", {}).items())}
    d["removals_by_number_of_rotations"] = {str(k): v for k, v in sorted(_xstats.get("per_remove", {}).items())}
    d["crashes"] = sum(1 for l in impl if l.startswith("CRASH"))
    d["cases_also_run_on_ZIX_TREE_HYPER_VERIFY_build"] = _xstats.get("verify_build_cases", 0)
    worst = 0.0
    import math
    for l in impl:
        for t in l.split(" || ")[0].split():
            if t.startswith("D:h") and "/" in t:
                try:
                    h, n = t[3:].split("/")
                    if int(n) > 0:
                        worst = max(worst, int(h) / math.log2(int(n) + 2))
                except ValueError:
                    pass
    d["max_height_over_log2_size_plus_2"] = round(worst, 4)
    return d
