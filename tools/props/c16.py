"""C16 — zix_expand_environment_strings against the reference expander (EnvSpec.v) and the model (EnvModel.v).

case line:  <env> <alloc> <input>
  env   = n (environ == NULL) | e:<entry>,<entry>,...   (every entry followed by ',')
  alloc = d (NULL allocator) | a:<T|F>*   (answers of the tracking allocator, afterwards all succeed)
  input = s:<bytes>
bytes are percent-encoded (33..126 except '%' and ',' literal)."""
import itertools
import os
import zlib

import vlib

PROPS = "Properties_C16"
NDEBUG_TOO = True     # the library\'s normal build compiles assertions out: the same cases run against that build too
# leaf functions / constants of environment_posix.c are re-translated from the C source on every run (tools/translate_leaf.py ->
# coq/gen/Leaf.v, Constants.v) and re-proved equal to the model's (coq/Properties_leaf_env.v)
EXTRA_PROPS = ["Properties_leaf_env"]


def REGEN(ctx):
    vlib.regen_leaf(ctx, ["Env"])


RULE = ("every string over {$,~,/,:,A,_,a,{,}} up to length 4 (quick) / 6 (thorough) under 3 environments "
        "(length 6: one of the 3; thorough also length 7 over {$,~,/,:,A,_,a} and length 8 over {$,~,/,A}), every byte 1..255 around '$' and '~', seeded random longer strings and random "
        "environments (set/unset/empty, values with '$' and '~', HOME set/unset/empty, null environ, names that are "
        "prefixes of each other, entries without '='), long names (62, 63, 64, 65, 100, 300 characters; environment with the long "
        "name, its 63-character prefix, both, neither) and long lowercase/brace tails, allocation-failure scripts; non-trivial = the input contains "
        "a '$' followed by a name character or a '~'")
ASSUMPTIONS = [
    "input and environment entries are NUL-terminated byte strings without interior NUL (C strings); environ is "
    "NULL or a NULL-terminated array",
    "index arithmetic is modelled on nat: s, start, t, len never exceed the input/result length + 1, no size_t wrap reachable",
    "allocation failure cases (script contains F) are compared with the model only (L2); the spec line is '*' "
    "because C16 does not speak about allocation failure (that is C07)",
]

ALPHA = "$~/:A_a{}"
ENVS = [
    "e:AA=w,A=v$A~,HOME=/h,_=,A_=~,A=second,",          # prefix names in both orders, empty value, '$'/'~' in values
    "n",                                                 # null environ
    "e:A,A_,HOMEX=/no,HOM=/no,__=$A,AA=,=e,",            # HOME and A unset (A without '='), near-miss names
]


def enc(bs):
    return "".join(chr(b) if 32 < b < 127 and b not in (37, 44) else "%%%02X" % b for b in bs)


def dec(s):
    out, i = [], 0
    while i < len(s):
        if s[i] == "%" and i + 2 < len(s):
            out.append(int(s[i + 1:i + 3], 16))
            i += 3
        else:
            out.append(ord(s[i]))
            i += 1
    return out


def mk(env, alloc, text):
    if isinstance(text, str):
        text = [ord(c) for c in text]
    return "%s %s s:%s" % (env, alloc, enc(text))


def mkenv(entries):
    return "e:" + "".join(enc([ord(c) for c in e] if isinstance(e, str) else e) + "," for e in entries)


NAMES = ["A", "AA", "AB", "A_", "_", "__", "HOME", "HOM", "HOMEX", "B", "A1", "0", "9A", "Z", "a", ""]
VALUES = ["", "v", "$A", "~", "/h", "x=y", "$HOME", "a b", "~/$A:", "/home/user", "%", "w,z", "\x80\xff", "/h/", "/", "=", "a=b=c",
          "x/", ":"]


def rand_env(r):
    k = r.random()
    if k < 0.08:
        return "n"
    if k < 0.12:
        return "e:"
    ents = []
    for _ in range(r.randint(1, 7)):
        n = r.choice(NAMES)
        if r.random() < 0.12:
            ents.append(n)                        # entry without '='
        else:
            ents.append(n + "=" + r.choice(VALUES))
    if r.random() < 0.5:
        ents.insert(r.randint(0, len(ents)), "HOME=" + r.choice(VALUES))
    return mkenv([[ord(c) for c in e] for e in ents])


PIECES = ["$A", "$AA", "$AB", "$A_", "$_", "$HOME", "$HOMEX", "$HOM", "$", "~", "/", ":", "a", "A", "_", "{", "}", "${A}",
          "$a", "$0", "$9A", "$Z", ".", " ", "%", ",", "@", "[", "`", "^", "~/", ":~", "/~/", "~~", "x", "file.c~", "$$", "$~", "~$A"]


def rand_input(r):
    if r.random() < 0.25:
        n = r.randint(0, 24)
        return [r.choice([36, 126, 47, 58, 65, 95, 97, 123, 125, 48, 57, 90, 64, 91, 96, 46, 32, 37, 44, r.randint(1, 255)])
                for _ in range(n)]
    s = "".join(r.choice(PIECES) for _ in range(r.randint(0, 10)))
    return [ord(c) for c in s]


def build(ctx):
    ctx.build_driver("drv_c16", ["posix/environment_posix.c", "allocator.c", "string_view.c"])


def exhaustive(maxlen, one_env_len):
    for n in range(0, maxlen + 1):
        for tup in itertools.product(ALPHA, repeat=n):
            s = "".join(tup)
            if n >= one_env_len:
                yield mk(ENVS[zlib.crc32(s.encode()) % 3], "a:", s)
            else:
                for e in ENVS:
                    yield mk(e, "a:", s)


def byte_sweep():
    out = []
    for e in (ENVS[0], ENVS[2]):
        for c in range(1, 256):
            for t in ([36, c], [36, 65, c, 126], [c, 126], [126, c], [c, 126, c], [36, c, 65], [47, 126, c], [c, 126, 47]):
                out.append(mk(e, "a:", t))
    return out


LONG_LENS = (62, 63, 64, 65, 100, 300)


def long_name(r, n):
    """a name of n characters over [A-Z0-9_] (first one a letter so it reads as a reference)"""
    return "".join(r.choice("ABCXYZ_")) + "".join(r.choice("ABCDEFGHIJKLMNOPQRSTUVWXYZ0123456789_") for _ in range(n - 1))


def long_names(r):
    """references whose NAME is long (a fixed-size key buffer or a truncating lookup shows only there):
    environment holds (a) only the long name, (b) only its 63-character prefix, (c) both (either order),
    (d) neither; also a name one character longer, and long lowercase/brace tails after a name"""
    out = []
    for n in LONG_LENS:
        name = long_name(r, n)
        pre = name[:63] if n > 63 else name[:-1]
        envs = [mkenv([name + "=LONG"]), mkenv([pre + "=PREFIX"]), mkenv([pre + "=PREFIX", name + "=LONG"]),
                mkenv([name + "=LONG", pre + "=PREFIX"]), mkenv(["HOME=/h"]), "n",
                mkenv([name + "X=LONGER", "A=v"])]
        tail = "".join(r.choice("abcxyz{}") for _ in range(n))
        for e in envs:
            for text in ("$" + name, "x$" + name + "/y", "$" + pre + ":$" + name, "${" + name + "}",
                         "$" + name + tail, "~/$" + name + "~", "$A" + tail, "$" + name + "$" + name):
                out.append(mk(e, "a:", text))
        out.append(mk(envs[2], "d", "$" + name))
        out.append(mk(envs[0], "a:TF", "ab$" + name))
    return out


def gen(ctx, seed, tier):
    r = ctx.rng("gen", seed)
    thorough = tier == "thorough"
    cases = []
    if seed == ctx.seed:     # the exhaustive parts do not depend on the seed: not repeated by the search
        cases = list(exhaustive(6 if thorough else 4, 6))
        if thorough:
            # deeper over reduced alphabets: length 7 over {$,~,/,:,A,_,a}, length 8 over {$,~,/,A}
            for alpha, n in (("$~/:A_a", 7), ("$~/A", 8)):
                for tup in itertools.product(alpha, repeat=n):
                    s = "".join(tup)
                    cases.append(mk(ENVS[zlib.crc32(s.encode()) % 3], "a:", s))
        cases += byte_sweep()
    cases += long_names(r)
    for _ in range(60000 if thorough else 6000):
        cases.append(mk(rand_env(r), "d" if r.random() < 0.15 else "a:", rand_input(r)))
    # allocation failure at every request index of a sample
    for _ in range(6000 if thorough else 700):
        e, t = rand_env(r), rand_input(r)
        for k in range(0, r.randint(1, 7)):
            cases.append(mk(e, "a:" + "T" * k + "F", t))
    return cases


def spec_match(case, spec_line, impl_obs):
    """a spec line 'out=NULL|s:<hex>' (allocation-failure scripts) admits NULL or exactly the expansion"""
    sl = spec_line.strip()
    if sl.startswith("out=NULL|"):
        return impl_obs.strip() in ("out=NULL", "out=" + sl[len("out=NULL|"):])
    return vlib.spec_match(spec_line, impl_obs)


def corpus(ctx):
    p = os.path.join(vlib.VERIF, "corpus", "C16.txt")
    if not os.path.exists(p):
        return []
    return [l.rstrip("\n") for l in open(p) if l.strip() and not l.startswith("#")]


def targeted(ctx):
    """inputs aimed at the scanner's bookkeeping: references at every offset, adjacent, at the end"""
    out = []
    for e in ENVS + ["e:HOME=,X=,", "e:HOME=~,A=$A,"]:
        for pre in ["", "a", "ab", "abc", "/", "a/", "$", "~", "~/", "$A"]:
            for ref in ["$A", "$AA", "$A_", "~", "$HOME", "$_", "$Aa", "$A{", "~A", "~a"]:
                for post in ["", "/rest", ":", "~", "$A", "a", "A"]:
                    out.append(mk(e, "a:", pre + ref + post))
    return out


_ENV = {"ASAN_OPTIONS": "detect_leaks=1:abort_on_error=0:exitcode=99:max_allocation_size_mb=256:allocator_may_return_null=1"}


def run_impl(ctx, cases):
    out = []
    for i in range(0, len(cases), 200000):
        chunk = cases[i:i + 200000]
        rc, o, err = ctx.run_lines([ctx.path("drv_c16")], chunk, timeout=1500, env=_ENV)
        if len(o) < len(chunk):
            o = o + ["out=CRASH rc=%d %s" % (rc, (err.strip().split("\n")[0][:120] if err.strip() else "")).strip()] * (len(chunk) - len(o))
        elif rc != 0 and o:
            o[-1] = o[-1].split(" || ")[0] + " SANITIZER-OR-LEAK-rc=%d" % rc
        out += o[:len(chunk)]
    return out


def run_model(ctx, cases):
    ms, ss = [], []
    for i in range(0, len(cases), 200000):
        m, s = ctx.run_model("drv_c16", cases[i:i + 200000], timeout=1500)
        ms += m
        ss += s
    return ms, ss


def _input(case):
    return dec(case.split(" ")[2][2:])


def is_name(c):
    return 48 <= c <= 57 or 65 <= c <= 90 or c == 95


def nontrivial(case):
    t = _input(case)
    return any((c == 36 and i + 1 < len(t) and is_name(t[i + 1])) or c == 126 for i, c in enumerate(t))


# shrinking: tokens are ('n',) | ('e', entry) | ('a', script) | ('c', byte)
def tokens(case):
    e, a, s = case.split(" ")
    toks = [("n",)] if e == "n" else [("e", x) for x in e[2:].split(",")[:-1]]
    toks.append(("a", a))
    toks += [("c", b) for b in dec(s[2:])]
    return toks


def untokens(toks):
    null = any(t[0] == "n" for t in toks)
    ents = [t[1] for t in toks if t[0] == "e"]
    al = [t[1] for t in toks if t[0] == "a"]
    env = "n" if (null and not ents) else "e:" + "".join(x + "," for x in ents)
    return "%s %s s:%s" % (env, al[0] if al else "a:", enc([t[1] for t in toks if t[0] == "c"]))


def stats(cases, impl):
    d = {"null_environ": 0, "default_allocator": 0, "fault_scripts": 0, "with_reference": 0, "with_tilde": 0,
         "output_differs_from_input": 0, "returned_NULL": 0, "HANG": 0, "CRASH": 0}
    lens = {}
    max_name = long_refs = 0
    for c, o in zip(cases, impl):
        e, a, s = c.split(" ")
        t = dec(s[2:])
        i = 0
        while i < len(t):
            if t[i] == 36:
                j = i + 1
                while j < len(t) and is_name(t[j]):
                    j += 1
                max_name = max(max_name, j - i - 1)
                long_refs += (j - i - 1) >= 63
                i = j
            else:
                i += 1
        d["null_environ"] += e == "n"
        d["default_allocator"] += a == "d"
        d["fault_scripts"] += "F" in a
        d["with_reference"] += any(x == 36 and i + 1 < len(t) and is_name(t[i + 1]) for i, x in enumerate(t))
        d["with_tilde"] += 126 in t
        ob = o.split(" || ")[0]
        d["output_differs_from_input"] += ob.startswith("out=s:") and ob[6:] != s[2:]
        d["returned_NULL"] += ob.startswith("out=NULL")
        d["HANG"] += ob.startswith("out=HANG")
        d["CRASH"] += ob.startswith("out=CRASH")
        k = min(len(t), 12)
        lens[k] = lens.get(k, 0) + 1
    d["max_reference_name_length"] = max_name
    d["references_with_name_of_63_or_more"] = long_refs
    d["input_length_histogram(12=12+)"] = {str(k): v for k, v in sorted(lens.items())}
    return d
