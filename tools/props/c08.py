"""C08 — all memory goes through the caller's allocator and is released exactly once (see c07.py / fault_common.py)."""
from props import c07


def check(ctx):
    return c07.check(ctx, pid="C08", props="Properties_C08")
