"""C03 — zix_hash is a faithful, always-terminating map for any hash function.

case line:  <hf> <keyoff> <failscript> <op> ...      (formats: harness/drv_c03.c)
The generator is DIRECTED by a small Python replica of the table (class Mini): steady-state churn keeps
the live count strictly between the shrink and grow thresholds so that no rehash ever clears the
tombstones, and prefers insertions that consume an Empty slot; `stats` reports the minimum number of
Empty slots reached (0 = the regime in which absent-key look-ups used to hang)."""
import os
from concurrent.futures import ThreadPoolExecutor

import vlib

PROPS = "Properties_C03"
NDEBUG_TOO = True     # the library's normal build compiles assertions out: the same histories run against that build too

# leaf functions / constants of hash.c are re-translated from the C source on every run (tools/translate_leaf.py ->
# coq/gen/Leaf.v, Constants.v) and re-proved equal to the model's (coq/Properties_leaf_hash.v)
EXTRA_PROPS = ["Properties_leaf_hash"]


def REGEN(ctx):
    vlib.regen_leaf(ctx, ["Hash"])


HFS = ["const", "id", "mod4", "mult", "special"]
OFFS = [0, 8, 24]
M64 = (1 << 64) - 1
RULE = ("operation histories (insert, plan/plan_prehashed+insert_at, find, find_record, remove, find+erase, size, "
        "iterate) x 5 hash functions (constant, identity, k mod 4, multiplicative, one yielding codes 0 and 0xDEAD) x key "
        "offset {0,8,24} x allocation fail scripts; random histories over small key universes, model-directed "
        "steady-state churn between the shrink and grow thresholds, plan/insert_at pairs, insertions planned for a reused "
        "tombstone whose grow allocation fails, exhaustive short histories "
        "(thorough); non-trivial = the history contains a successful insertion followed later by a removal or a look-up; "
        "distinct = distinct case strings")
ASSUMPTIONS = [
    "user callbacks are functions of their arguments: key_func = field access, equality = key equality, hash = hf(key) "
    "for an arbitrary hf (the theorems quantify over every hf : Z -> Z; the runs use five)",
    "table length stays below 2^63 (n_entries << 1 does not wrap): 16*n bytes must be allocatable",
    "the allocator returns fresh zeroed blocks or NULL according to an arbitrary script",
    "insertion plans are used as documented: for the key they were made for, before any modification of the table; "
    "zix_hash_erase gets an iterator returned by zix_hash_find on the unmodified table",
]


# ------------------------------------------------------------------ hash functions (as in HashModel.v / drv_c03.c)
def hf(kind, k):
    if kind == "const":
        return 7
    if kind == "id":
        return k & M64
    if kind == "mod4":
        return k % 4
    if kind == "mult":
        return ((k * 0x9E3779B97F4A7C15) & M64) >> 29
    return 0 if k % 3 == 0 else (0xDEAD if k % 3 == 1 else k)


# ------------------------------------------------------------------ Python replica of the table (generator steering only)
class Mini:
    def __init__(self, kind, script=""):
        self.kind, self.n, self.count = kind, 4, 0
        self.slots = [None] * 4          # None = empty, "T" = tombstone, (code, key, id)
        self.script = list(script if script != "-" else "")
        self.min_empty = 4
        self.live = {}                   # live keys (insertion-ordered)
        self.absent_lookups_full = 0     # look-ups of absent keys executed with no Empty slot left
        self.absent_after_delete = 0
        self.deleted = False

    def empties(self):
        return sum(1 for e in self.slots if e is None)

    def alloc(self):
        self.requests = getattr(self, "requests", 0) + 1
        return self.script.pop(0) != "0" if self.script else True

    def probe(self, key, code):
        """find_entry: index of the empty slot or match ending the walk, or n after a full cycle"""
        h = code & (self.n - 1)
        i = h
        while True:
            e = self.slots[i]
            if e is None or (e != "T" and e[0] == code and e[1] == key):
                return i
            i = (i + 1) & (self.n - 1)
            if i == h:
                return self.n

    def lookup(self, key):
        i = self.probe(key, hf(self.kind, key))
        found = i != self.n and self.slots[i] is not None
        if not found:
            if self.empties() == 0:
                self.absent_lookups_full += 1
            if self.deleted:
                self.absent_after_delete += 1
        return i if found else None

    def plan(self, key):
        code = hf(self.kind, key)
        h = code & (self.n - 1)
        i, ft = h, None
        while self.slots[i] is not None:
            e = self.slots[i]
            if e != "T" and e[0] == code and e[1] == key:
                return i
            if ft is None and e == "T":
                ft = i
            i = (i + 1) & (self.n - 1)
            if i == h:
                break
        return ft if ft is not None else i

    def rehash(self, new_n):
        if not self.alloc():
            return False
        old, self.n = self.slots, new_n
        self.slots = [None] * new_n
        for e in old:
            if e is not None and e != "T":
                self.slots[self.probe(e[1], e[0])] = e
        return True

    def insert_at(self, idx, key, rid):
        if self.slots[idx] not in (None, "T"):
            return "EXISTS"
        orig = self.slots[idx]
        self.slots[idx] = (hf(self.kind, key), key, rid)
        if self.count + 1 >= self.n // 2 + self.n // 8:
            if not self.rehash(self.n * 2):
                self.slots[idx] = orig
                return "NO_MEM"
        self.count += 1
        self.live[key] = True
        self.min_empty = min(self.min_empty, self.empties())
        return "SUCCESS"

    def insert(self, key, rid):
        return self.insert_at(self.plan(key), key, rid)

    def remove(self, key):
        i = self.lookup(key)
        if i is None:
            return "NOT_FOUND"
        self.slots[i] = "T"
        self.count -= 1
        del self.live[key]
        self.deleted = True
        if self.count < self.n // 4 and self.n > 4:
            self.rehash(self.n // 2)
        return "SUCCESS"

    def live_keys(self):
        return list(self.live)

    def layout(self):
        return ",".join("%d:%d" % (i, e[2]) for i, e in enumerate(self.slots) if e not in (None, "T")) or "-"

    def would_rehash_on_insert(self):
        return self.count + 1 >= self.n // 2 + self.n // 8

    def would_shrink_on_remove(self):
        return self.count - 1 < self.n // 4 and self.n > 4


def replay_mini(case):
    """run a case through the replica; returns (mini, list of (op token, replica layout) at each T)"""
    t = case.split()
    script, ops = t[2], t[3:]
    if script.startswith("n"):               # the script starts at zix_hash_new's own two requests
        if "0" in script[1:3]:
            script, ops = "-", []            # zix_hash_new returns NULL: nothing runs
        else:
            script = script[3:] or "-"
    m = Mini(t[0], script)
    pend = None
    layouts = []
    for op in ops:
        c = op[0]
        if c in "IA":
            k, rid = op[1:].split(".")
            k, rid = int(k), int(rid)
            if c == "I":
                if m.insert(k, rid) == "SUCCESS":
                    pend = None
            elif pend is not None and pend[1] == k:
                if m.insert_at(pend[0], k, rid) == "SUCCESS":
                    pend = None
        elif c in "PQ":
            k = int(op[1:])
            pend = (m.plan(k), k)
        elif c in "FG":
            m.lookup(int(op[1:]))
        elif c in "REX":
            if m.remove(int(op[1:])) != "NOT_FOUND":
                pend = None
        elif c == "T":
            layouts.append(m.layout())
    return m, layouts


# ------------------------------------------------------------------ generators
class Ids:
    def __init__(self):
        self.n = 0

    def new(self):
        self.n += 1
        return self.n - 1


def gen_random(r, kind, off, nops, universe, script="-"):
    ids, ops = Ids(), []
    keys = list(range(universe))
    extra = [100, 101, 1 << 20]
    live = {}           # key -> a record id seen (for re-inserting the same pointer)
    planned = None
    for _ in range(nops):
        x = r.random()
        k = r.choice(keys)
        if x < 0.30:
            rid = live[k] if (k in live and r.random() < 0.1) else ids.new()
            live.setdefault(k, rid)
            ops.append("I%d.%d" % (k, rid))
        elif x < 0.45:
            ops.append("%s%d" % (r.choice("RRRX"), r.choice(keys + extra)))
        elif x < 0.55:
            ops.append("E%d" % r.choice(keys + extra))
        elif x < 0.67:
            ops.append("F%d" % r.choice(keys + extra))
        elif x < 0.77:
            ops.append("G%d" % r.choice(keys + extra))
        elif x < 0.87:
            ops.append("%s%d" % (r.choice("PQ"), k))
            planned = k
            if r.random() < 0.8:
                if r.random() < 0.5:
                    ops.append(r.choice(["F%d" % k, "G%d" % r.choice(keys), "Z", "T"]))
                ops.append("A%d.%d" % (k, ids.new()))
        elif x < 0.90:
            kk = planned if (planned is not None and r.random() < 0.5) else k
            ops.append("A%d.%d" % (kk, ids.new()))      # usually skipped (no valid plan): the contract boundary
        elif x < 0.95:
            ops.append("T")
        else:
            ops.append("Z")
    ops += ["T", "Z"]
    return "%s %d %s %s" % (kind, off, script, " ".join(ops))


def gen_churn(r, kind, off, target_n, rounds):
    """fill a table of target_n slots to a count strictly inside (n/4, 5n/8), then churn: every insertion and
    removal is checked against the replica so that no rehash happens; absent-key look-ups are interleaved"""
    ids, ops = Ids(), []
    m = Mini(kind)
    nextkey = [0]
    keyspace = 1 << 16 if kind in ("mult", "id", "special") else 64

    def fresh_key(prefer_empty):
        best = None
        for _ in range(24):
            k = r.randrange(keyspace) if r.random() < 0.7 else nextkey[0]
            nextkey[0] += 1
            if k in m.live:
                continue
            if not prefer_empty:
                return k
            p = m.plan(k)
            if m.slots[p] is None:
                return k            # this insertion consumes an Empty slot
            best = k
        return best

    def do_insert(k):
        rid = ids.new()
        m.insert(k, rid)
        ops.append("I%d.%d" % (k, rid))

    k = 0
    while m.n < target_n:
        kk = fresh_key(False)
        if kk is None:
            break
        do_insert(kk)
    lo, hi = m.n // 4, m.n // 2 + m.n // 8          # keep lo <= count-1 and count+1 < hi
    while m.count + 1 < hi - 1 and r.random() < 0.7:
        kk = fresh_key(False)
        if kk is None:
            break
        do_insert(kk)
    absent = [1 << 30, (1 << 30) + 1, 12345678]
    for _ in range(rounds):
        if not m.would_rehash_on_insert() and (m.would_shrink_on_remove() or r.random() < 0.55):
            kk = fresh_key(True)
            if kk is None:
                break
            if r.random() < 0.25:
                p = r.choice("PQ")
                rid = ids.new()
                ops.append("%s%d" % (p, kk))
                ops.append("A%d.%d" % (kk, rid))
                m.insert(kk, rid)
            else:
                do_insert(kk)
        elif not m.would_shrink_on_remove() and m.live:
            victim = r.choice(m.live_keys())
            m.remove(victim)
            ops.append("%s%d" % (r.choice("RRE"), victim))
        x = r.random()
        if x < 0.35:
            a = r.choice(absent + [fresh_key(False) or 7])
            if a not in m.live:
                m.lookup(a)
                ops.append("%s%d" % (r.choice("FGR"), a))
        elif x < 0.40:
            ops.append("T")
    for a in absent:
        ops.append("F%d" % a)
        ops.append("G%d" % a)
    if m.live:
        ops.append("F%d" % next(iter(m.live)))
    ops += ["T", "Z"]
    return "%s %d - %s" % (kind, off, " ".join(ops))


def gen_fill(r, kind, off, target_n, extra=2):
    """churn with the live count strictly between the thresholds until the replica reports 0 Empty slots (every
    free slot a tombstone), THEN a burst of target_n + extra fresh keys (more than the table holds: it has to
    grow while every insertion reuses a tombstone), then look-ups of all of them"""
    ids, ops = Ids(), []
    m = Mini(kind)
    keyspace = 1 << 16 if kind in ("mult", "id", "special") else 4096
    seq = [0]

    def fresh(prefer_empty):
        best = None
        for _ in range(64):
            k = r.randrange(keyspace) if r.random() < 0.6 else seq[0]
            seq[0] += 1
            if k in m.live:
                continue
            if not prefer_empty or m.slots[m.plan(k)] is None:
                return k
            best = k
        return best

    def ins(k):
        rid = ids.new()
        m.insert(k, rid)
        ops.append("I%d.%d" % (k, rid))

    while m.n < target_n:
        ins(fresh(False))
    lo, hi = m.n // 4, m.n // 2 + m.n // 8
    while m.count - 1 < lo and m.count + 2 < hi:
        ins(fresh(False))
    for _ in range(60 * target_n):
        if m.empties() == 0 or m.would_rehash_on_insert():
            break
        k = fresh(True)
        if k is None or m.slots[m.plan(k)] is not None:
            break                           # no key reaches an Empty slot any more (colliding hash function)
        ins(k)
        if m.would_shrink_on_remove():
            break
        m.remove(k)
        ops.append("%s%d" % (r.choice("RE"), k))
    ops += ["F%d" % (1 << 30), "G%d" % (1 << 30)]
    burst = []
    while len(burst) < target_n + extra:
        k = fresh(False)
        if k is None:
            break
        burst.append(k)
        if r.random() < 0.2:
            rid = ids.new()
            ops += ["%s%d" % (r.choice("PQ"), k), "A%d.%d" % (k, rid)]
            m.insert(k, rid)
        else:
            ins(k)
    ops += ["F%d" % k for k in burst] + ["G%d" % k for k in burst[:4]] + ["T", "Z"]
    return "%s %d - %s" % (kind, off, " ".join(ops))


def gen_exhaustive(kind, off, depth):
    """every history of the given depth over keys {1, 5, 2} (1 and 5 collide under mod4) and six calls"""
    calls = []
    for k in (1, 5, 2):
        calls += ["I%d" % k, "R%d" % k, "F%d" % k, "PA%d" % k]
    out = []

    def rec(prefix, d):
        if d == 0:
            ops, nid = [], 0
            for c in prefix:
                if c[0] == "I":
                    ops.append("%s.%d" % (c, nid))
                    nid += 1
                elif c.startswith("PA"):
                    ops += ["P" + c[2:], "A%s.%d" % (c[2:], nid)]
                    nid += 1
                else:
                    ops.append(c)
            out.append("%s %d - %s T Z" % (kind, off, " ".join(ops)))
            return
        for c in calls:
            rec(prefix + [c], d - 1)
    rec([], depth)
    return out


def with_faults(r, case, how_many):
    """the same history with an allocation failure injected at each request index (single and persistent)"""
    t = case.split()
    out = []
    for i in range(how_many):
        out.append(" ".join([t[0], t[1], "1" * i + "0"] + t[3:]))
        if r.random() < 0.3:
            out.append(" ".join([t[0], t[1], "1" * i + "0" * 6] + t[3:]))
    # the same with the script starting at zix_hash_new's own requests (struct, entries array)
    for i in range(min(how_many, 4)):
        out.append(" ".join([t[0], t[1], "n" + "1" * i + "0"] + t[3:]))
    return out


def gen_failgrow(r, kind, off, target_n):
    """the insertion that has to grow the table is planned for a reused tombstone with live records behind it, and
    exactly that grow allocation fails: the slot must go back to being a tombstone (not Empty), or the records behind
    it become unreachable.  Afterwards every live key is looked up, re-inserted (EXISTS) and the table iterated."""
    ids, ops = Ids(), []
    m = Mini(kind)
    keyspace = 1 << 16 if kind in ("mult", "id", "special") else 4096
    seq = [r.randrange(64)]

    def fresh(pred):
        for _ in range(400):
            k = r.randrange(keyspace) if r.random() < 0.5 else seq[0]
            seq[0] += 1
            if k not in m.live and pred(k):
                return k
        return None

    def ins(k):
        rid = ids.new()
        m.insert(k, rid)
        ops.append("I%d.%d" % (k, rid))

    while m.n < target_n or m.count + 2 < m.n // 2 + m.n // 8:
        k = fresh(lambda k: True)
        if k is None:
            return None
        ins(k)
    if m.n != target_n:
        return None
    # a victim with a live record behind it on some probe path: the next slot is occupied
    victims = [k for k in m.live_keys()
               if m.slots[(m.lookup(k) + 1) & (m.n - 1)] not in (None, "T")]
    if not victims or m.would_shrink_on_remove():
        return None
    v = r.choice(victims)
    hole = m.lookup(v)
    m.remove(v)
    ops.append("%s%d" % (r.choice("RE"), v))
    # back to one below the load limit without touching the tombstone
    while not m.would_rehash_on_insert():
        k = fresh(lambda k: m.plan(k) != hole)
        if k is None:
            return None
        ins(k)
    if m.slots[hole] != "T":
        return None
    k = fresh(lambda k: m.plan(k) == hole)
    if k is None:
        return None
    script = "1" * getattr(m, "requests", 0) + "0"
    if r.random() < 0.3:
        ops += ["%s%d" % (r.choice("PQ"), k), "A%d.%d" % (k, ids.new())]
    else:
        ops.append("I%d.%d" % (k, ids.new()))
    for kk in m.live_keys():
        ops.append("%s%d" % (r.choice("FG"), kk))
    ops += ["T", "Z"]
    for kk in r.sample(m.live_keys(), min(3, len(m.live))):
        ops.append("I%d.%d" % (kk, ids.new()))          # EXISTS
    ops += ["I%d.%d" % (k, ids.new()), "F%d" % k, "T", "Z"]     # memory is back: the insertion succeeds now
    return "%s %d %s %s" % (kind, off, script, " ".join(ops))


def failgrow_cases(r, per):
    out = []
    for kind in HFS:
        for tn in (8, 16, 32):
            for _ in range(per):
                c = gen_failgrow(r, kind, r.choice(OFFS), tn)
                if c:
                    out.append(c)
    return out


def gen(ctx, seed, tier):
    r = ctx.rng("gen", seed)
    cases = []
    quick = tier == "quick" or seed >= 1000      # the extra seeds of a search use the quick sizes
    for kind in HFS:
        for off in OFFS:
            for _ in range(70 if quick else 260):
                cases.append(gen_random(r, kind, off, r.randint(5, 90), r.choice([3, 6, 12, 24])))
            for _ in range(24 if quick else 90):
                script = "".join(r.choice("1110") for _ in range(r.randint(1, 8)))
                cases.append(gen_random(r, kind, off, r.randint(10, 80), r.choice([6, 12, 24]), script))
            big = kind in ("id", "mult", "special")
            sizes = ([8, 16, 32, 64] if big else [8, 16, 32]) if quick else \
                    ([8, 16, 32, 64, 128, 256] if big else [8, 16, 32, 64])
            for tn in sizes:
                for _ in range(8 if quick else 16):
                    cases.append(gen_churn(r, kind, off, tn, r.randint(3 * tn, 8 * tn)))
    for kind in HFS:
        for tn in (8, 16, 32):
            for off in (OFFS if not quick else [r.choice(OFFS)]):
                for _ in range(2):
                    cases.append(gen_fill(r, kind, off, tn, r.randint(2, 6)))
    cases += failgrow_cases(r, 3 if quick else 12)
    base = [gen_random(r, k, o, 40, 12) for k in HFS for o in (8,)]
    if not quick:
        base += [gen_random(r, k, o, r.randint(30, 120), r.choice([12, 24, 48])) for k in HFS for o in OFFS for _ in range(4)]
        base += [gen_churn(r, k, 8, 16, 60) for k in HFS]
    for b in base:
        cases += with_faults(r, b, 4 if quick else 10)
    if not quick:
        cases += gen_exhaustive("mod4", 8, 4)
        cases += gen_exhaustive("const", 24, 4) + gen_exhaustive("special", 8, 3)
        cases += gen_exhaustive("id", 0, 3) + gen_exhaustive("mult", 24, 3)
    else:
        for kind, off, cnt in (("mod4", 8, 600), ("const", 24, 300), ("special", 0, 300), ("id", 8, 200)):
            ex = gen_exhaustive(kind, off, 3)
            r.shuffle(ex)
            cases += ex[:cnt]
    return cases


def targeted(ctx):
    """extra inputs for the search when a proof or the correspondence is broken"""
    r = ctx.rng("targeted")
    out = []
    for n in (8, 16, 32, 64):
        keep = n // 4 + 1
        ops = ["I%d.%d" % (k, k) for k in range(keep)]
        for k in range(keep, 3 * n):
            ops += ["I%d.%d" % (k, k), "R%d" % k]
        ops += ["F100000", "G100000", "R100000", "T", "Z"]
        for off in OFFS:
            out.append("id %d - %s" % (off, " ".join(ops)))
    for kind in HFS:
        for off in OFFS:
            out.append("%s %d - %s T Z" % (kind, off, " ".join("I%d.%d" % (k, k) for k in range(1, 14))))
            for tn in (8, 16, 32):
                out.append(gen_churn(r, kind, off, tn, 10 * tn))
            for tn in (8, 16, 32, 64):
                out.append(gen_fill(r, kind, off, tn, 2))
                out.append(gen_fill(r, kind, off, tn, r.randint(3, 12)))
            b = gen_random(r, kind, off, 60, 12)
            out += with_faults(r, b, 6)
    out += failgrow_cases(r, 6)
    return out


def corpus(ctx):
    p = os.path.join(vlib.VERIF, "corpus", "C03.txt")
    if not os.path.exists(p):
        return []
    return [l.strip() for l in open(p) if l.strip() and not l.startswith("#")]


# ------------------------------------------------------------------ build / run
def build(ctx):
    ctx.build_driver("drv_c03", ["hash.c", "allocator.c"])
    exe = os.path.join(vlib.OCAML_BUILD, "drv_c03")
    deps = [os.path.join(vlib.COQ, f) for f in ("HashModel.v", "HashSpec.v", "ExtractC03.v", "HashAllocModel.v",
                                                "AllocModel.v", "FaultSpec.v")] + \
           [os.path.join(vlib.VERIF, "ocaml", "drv_c03.ml")]
    if not os.path.exists(exe) or any(os.path.getmtime(d) > os.path.getmtime(exe) for d in deps):
        rc, out, err = vlib.sh([os.path.join(vlib.VERIF, "tools", "build_models.sh"), "C03"], timeout=900)
        if rc != 0:
            raise vlib.BuildError("model driver build failed: " + (out + err)[-1500:])


def run_impl(ctx, cases):
    if not cases:
        return []
    shards = min(16, max(1, len(cases) // 40))
    size = (len(cases) + shards - 1) // shards
    chunks = [cases[i:i + size] for i in range(0, len(cases), size)]

    def one(chunk):
        rc, out, err = ctx.run_lines([ctx.path("drv_c03")], chunk, timeout=1500)
        out = [l for l in out if l != ""]
        if len(out) < len(chunk):
            out += ["CRASH driver rc=%d || -" % rc] * (len(chunk) - len(out))
        return out[:len(chunk)]

    with ThreadPoolExecutor(max_workers=shards) as ex:
        res = list(ex.map(one, chunks))
    return [l for ch in res for l in ch]


def run_model(ctx, cases):
    if not cases:
        return [], []
    shards = min(8, max(1, len(cases) // 100))
    size = (len(cases) + shards - 1) // shards
    chunks = [cases[i:i + size] for i in range(0, len(cases), size)]
    with ThreadPoolExecutor(max_workers=shards) as ex:
        res = list(ex.map(lambda ch: ctx.run_model("drv_c03", ch), chunks))
    return [l for (m, _) in res for l in m], [l for (_, s) in res for l in s]


# ------------------------------------------------------------------ L1: the map spec, following the implementation's answers
def l1_extra(case, impl_obs):
    """association-list (dict) semantics of the property text.  SUCCESS/NO_MEM on insertion are both accepted
    only when the case injects an allocation failure; the dict follows what the implementation answered."""
    t = case.split()
    ops = t[3:]
    faulty = "0" in t[2]
    new_must_fail = t[2].startswith("n") and "0" in t[2][1:3]
    if new_must_fail or impl_obs.startswith("new-failed"):
        return new_must_fail and impl_obs == "new-failed"      # NULL, and nothing outstanding (no LEAK token)
    toks = impl_obs.split()
    if len(toks) != len(ops) + 1 or toks[-1] != "roles=ok":
        return False
    m, pend = {}, None
    for op, tok in zip(ops, toks):
        c = op[0]
        if not tok.startswith(c + "="):
            return False
        v = tok[2:]
        if c in "IA":
            k, rid = op[1:].split(".")
            k = int(k)
            if c == "A" and (pend is None or pend != k):
                if v != "skip":
                    return False
                continue
            if k in m:
                if v != "EXISTS":
                    return False
            elif v == "SUCCESS":
                m[k] = rid
                pend = None
            elif not (v == "NO_MEM" and faulty):
                return False
        elif c in "PQ":
            k = int(op[1:])
            pend = k
            if v != m.get(k, "null"):
                return False
        elif c == "F":
            if v != m.get(int(op[1:]), "end"):
                return False
        elif c == "G":
            if v != m.get(int(op[1:]), "null"):
                return False
        elif c in "REX":
            k = int(op[1:])
            if k in m:
                if v not in ("SUCCESS:" + m[k],) + (("NO_MEM:" + m[k],) if faulty else ()):
                    return False
                del m[k]
                pend = None
            elif v != "NOT_FOUND:null":
                return False
        elif c == "Z":
            if v != str(len(m)):
                return False
        elif c == "T":
            want = ",".join(str(x) for x in sorted(int(x) for x in m.values())) or "-"
            if v != want:
                return False
        else:
            return False
    return True


def nontrivial(c):
    ops = c.split()[3:]
    seen_ins = False
    for o in ops:
        if o[0] in "IA":
            seen_ins = True
        elif seen_ins and o[0] in "REXFG":
            return True
    return False


_hdr = ["id", "0", "-"]


def tokens(case):
    global _hdr
    t = case.split()
    _hdr = t[:3]
    return t[3:]


def untokens(toks):
    return " ".join(_hdr + list(toks))


def stats(cases, impl):
    d = {"by_hash": {}, "by_offset": {}, "ops": {}, "with_fail_script": 0, "impl_NO_MEM": 0, "impl_EXISTS": 0,
         "impl_skip": 0, "impl_HANG": 0, "impl_CRASH": 0, "impl_new_failed": 0, "alloc_events": 0,
         "history_len_max": 0}
    min_empty, zero_cases, full_absent, absent_del, layout_checked, layout_bad, max_n = None, 0, 0, 0, 0, 0, 0
    for c, im in zip(cases, impl):
        t = c.split()
        d["by_hash"][t[0]] = d["by_hash"].get(t[0], 0) + 1
        d["by_offset"][t[1]] = d["by_offset"].get(t[1], 0) + 1
        d["with_fail_script"] += "0" in t[2]
        d["history_len_max"] = max(d["history_len_max"], len(t) - 3)
        for o in t[3:]:
            d["ops"][o[0]] = d["ops"].get(o[0], 0) + 1
        ob = vlib.obs(im)
        d["impl_NO_MEM"] += ob.count("NO_MEM")
        d["impl_EXISTS"] += ob.count("EXISTS")
        d["impl_skip"] += ob.count("=skip")
        d["impl_HANG"] += ob.count("HANG")
        d["impl_CRASH"] += ob.count("CRASH")
        d["impl_new_failed"] += ob.startswith("new-failed")
        if " mem=" in im or im.startswith("mem="):
            mt = im.rsplit("mem=", 1)[1]
            d["alloc_events"] += 0 if mt == "-" else mt.count(",") + 1
        try:
            m, layouts = replay_mini(c)
        except Exception:
            continue
        min_empty = m.min_empty if min_empty is None else min(min_empty, m.min_empty)
        zero_cases += m.min_empty == 0
        full_absent += m.absent_lookups_full
        absent_del += m.absent_after_delete
        max_n = max(max_n, m.n)
        # cross-check the replica against the implementation's slot layout at every iteration
        if " || " in im:
            its = [x for x, o in zip(im.split(" || ")[1].split(), t[3:]) if o == "T"]
            for a, b in zip(its, layouts):
                layout_checked += 1
                layout_bad += a != b
    d.update({"min_empty_slots_reached": min_empty, "cases_reaching_zero_empty_slots": zero_cases,
              "absent_key_lookups_with_zero_empty_slots": full_absent,
              "absent_key_lookups_after_a_deletion": absent_del,
              "replica_layouts_checked_against_impl": layout_checked, "replica_layout_mismatches": layout_bad,
              "largest_table": max_n})
    return d
