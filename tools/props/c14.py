"""C14 — zix_copy_file against a scripted kernel (link-time wrappers), see DESIGN.md section 5 C14."""
import os

import vlib

PROPS = "Properties_C14"
NDEBUG_SAMPLE = 2500  # quick tier: this many of the cases, evenly spread
NDEBUG_TOO = True     # the library\'s normal build compiles assertions out: the same cases run against that build too
EXTRA_PROPS = ["Properties_errno",       # errno -> status table regenerated from errno_status.c on every run
               "Properties_leaf_copy"]   # zix_get_block_size and the stack-buffer size re-translated from the C source on every run


def REGEN(ctx):
    vlib.regen_errno(ctx)
    vlib.regen_leaf(ctx, ["Copy"])

RULE = ("per configuration (source kind x size x destination state x option x allocator answer x block sizes x "
        "kernel-copy available/unavailable) the fault-free run, then one fault (error or short count) at every "
        "system-call index of that run (thorough: every index x several errno values and short counts; quick: "
        "sampled), plus random multi-fault scripts; non-trivial = regular source whose run reaches the copy stage")
ASSUMPTIONS = [
    "kernel = the environment model coq/CopySpec.v: a successful call leaves errno unchanged, close releases the "
    "descriptor even when it fails, read/copy_file_range return 0 only at end of file, files are not modified "
    "concurrently; the real kernel is exercised only through the runs of this check (ext4/tmpfs under /tmp, one "
    "real /tmp -> /dev/shm copy)",
    "faults on stat(destination) when the destination IS the source and OVERWRITE is set are outside the property's "
    "fault list (read, write, copy_file_range, fdatasync, close): the same-file guard depends on that stat "
    "(theorem copy_source_unchanged states the hypothesis; copy_source_stat_fault_refuted shows it is needed)",
    "the caller's aligned_free leaves errno unchanged",
]

WRAPS = ["open", "open64", "fstat", "fstat64", "stat", "stat64", "copy_file_range", "read", "write",
         "fdatasync", "close", "posix_fadvise", "posix_fadvise64"]
REPO_FILES = ["posix/filesystem_posix.c", "posix/system_posix.c", "system.c", "errno_status.c", "allocator.c",
              "filesystem.c", "path.c", "string_view.c"]


def build(ctx):
    ctx.build_driver("drv_c14", REPO_FILES, flags=["-Wl,--wrap=" + w for w in WRAPS],
                     extra=[os.path.join(vlib.HARNESS, "wrap_io_c14.c")])
    # the configuration without copy_file_range(): only the read/write loop exists there
    ctx.build_driver("drv_c14", REPO_FILES, flags=["-Wl,--wrap=" + w for w in WRAPS] + ["-UHAVE_COPY_FILE_RANGE"],
                     extra=[os.path.join(vlib.HARNESS, "wrap_io_c14.c")], out=ctx.path("drv_c14_nocfr"))
    rc, out, err = vlib.sh([os.path.join(vlib.VERIF, "tools", "build_models.sh"), "C14"], timeout=600)
    if rc != 0:
        raise vlib.BuildError("model build failed: " + (out + err)[-500:])


def corpus(ctx):
    p = os.path.join(vlib.VERIF, "corpus", "C14.txt")
    return [l.strip() for l in open(p) if l.strip() and not l.startswith("#")] if os.path.exists(p) else []


def mk(sk, src, ds, dst, opt, b1, b2, al, e0, script):
    return "K %s %s %s %s %d %d %d %s %d %s" % (sk, src, ds, dst, opt, b1, b2, al, e0, ",".join(script) or "-")


def n_calls(ctx, cases):
    """number of scripted calls in each case's run, from the model's trace"""
    ms, _ = ctx.run_model("drv_c14", cases)
    out = []
    for m in ms:
        tr = m.split(" || ")[1].split() if " || " in m else []
        out.append(sum(1 for t in tr if not t.startswith(("alloc:", "free:"))))
    return out


ERRNOS = [5, 28, 4, 22, 18, 38, 13, 12, 95, 17, 2, 11, 122]


def gen(ctx, seed, tier):
    r = ctx.rng("gen", seed)
    thorough = tier == "thorough"
    bases = []
    # (b1, b2, sizes): small block sizes through the fstat wrapper, the 4096 default, the real look
    blocks = [(4, 4, [0, 1, 3, 4, 5, 8, 9, 13]), (8, 3, [0, 7, 8, 9, 17]), (0, 4, [0, 4095, 4096, 4097, 8193]),
              (-1, -1, [5]), (4096, 512, [4097])]
    for (b1, b2, sizes) in blocks:
        for n in sizes:
            src = "@%d:%d" % (n, r.randint(0, 99)) if n > 16 else ("".join("%02x" % r.randint(0, 255) for _ in range(n)) or "-")
            for ds in "NFPHLD":
                for opt in (0, 1):
                    if n > 100 and (ds in "PHLD" or (ds == "F" and opt == 0)) and not thorough:
                        continue
                    dst = "".join("%02x" % r.randint(0, 255) for _ in range(r.choice([0, 2, n + 3 if n < 40 else 6]))) or "-"
                    for unsup in (None, 18, 22, 38):
                        if unsup and ds not in "NF":
                            continue
                        if unsup == 38 and n > 100 and not thorough:
                            continue
                        pre = ["F"] * 5 + ["E%d" % unsup] if unsup else []
                        bases.append((("R", src, ds, dst if ds == "F" else "-", opt, b1, b2, "A", r.choice([0, 0, 5, 12])), pre))
    # stack-buffer fall-back: the allocator answers NULL (leaving errno alone or not)
    for n in [0, 1, 511, 512, 513, 1024, 1025, 1030]:
        for al in ("N0", "N12"):
            for ds, opt in (("N", 0), ("F", 1)):
                bases.append((("R", "@%d:%d" % (n, r.randint(0, 99)), ds, "0a0b" if ds == "F" else "-", opt, 4, 4, al, 0),
                              ["F"] * 5 + ["E18"]))
    # sources that are not regular files, or missing
    for sk in "DOMI":
        for ds in "NFD":
            for opt in (0, 1):
                bases.append(((sk, "-", ds, "0102" if ds == "F" else "-", opt, 4, 4, "A", r.choice([0, 5])), []))
    # option values with the overwrite bit AND other bits (ZixCopyOptions is documented as a bitwise OR)
    for opt in (3, 2, 2147483649):
        for ds in "NFPHL":
            bases.append((("R", "0102030405060708", ds, "0a0b" if ds == "F" else "-", opt, 4, 4, "A", 0), []))
    base_cases = [mk(*b, script=pre) for (b, pre) in bases]
    counts = n_calls(ctx, base_cases)
    cases = list(base_cases)
    for (b, pre), nc in zip(bases, counts):
        big = b[1].startswith("@") and int(b[1][1:].split(":")[0]) > 100
        idxs = list(range(nc + 1))
        if not thorough:
            k = 3 if big else 6
            idxs = sorted(set(r.sample(idxs, min(k, len(idxs))) + ([nc - 1] if nc and not big else [])))
        elif big:
            idxs = sorted(set(r.sample(idxs, min(12, len(idxs))) + [nc - 1, nc - 2, nc - 3]))
            idxs = [i for i in idxs if i >= 0]
        for i in idxs:
            outs = ["E%d" % e for e in (ERRNOS if thorough and not big else r.sample(ERRNOS, 2))]
            outs += ["S0", "S1", "S3"] if (thorough or r.random() < 0.5) else [r.choice(["S0", "S1", "S2", "S5"])]
            for o in outs:
                s = list(pre) + ["F"] * max(0, i + 1 - len(pre))
                if s[i] != "F":
                    continue    # keep the kernel-copy-unavailable answer
                s[i] = o
                cases.append(mk(*b, script=s))
    # random multi-fault scripts
    nrand = 4000 if thorough else 500
    small = [(b, pre, nc) for (b, pre), nc in zip(bases, counts) if not (b[1].startswith("@") and int(b[1][1:].split(":")[0]) > 600)]
    for _ in range(nrand):
        b, pre, nc = r.choice(small)
        s = list(pre) + ["F"] * max(0, nc + 2 - len(pre))
        for _ in range(r.randint(2, 4)):
            i = r.randrange(len(s))
            s[i] = r.choice(["E%d" % r.choice(ERRNOS), "S%d" % r.randint(0, 6), "F"])
        cases.append(mk(*b, script=s))
    cases.append("X 10000 %d" % r.randint(0, 99))
    cases.append("X 0 0")
    seen, out = set(), []
    for c in cases:
        if c not in seen:
            seen.add(c)
            out.append(c)
    # the build without copy_file_range(): the fault-free cases again (spec only)
    nocfr = ["~ " + c for c in out if c.startswith("K ") and c.split()[10] == "-"][:(400 if thorough else 120)]
    # the same calls in a process whose descriptor 0 is closed (the source, or the destination, becomes descriptor 0)
    def z(c):
        t = c.split()
        t[9] = "z" + t[9]
        return " ".join(t)
    zs = [c for c in out if c.startswith("K ")]
    out += [z(c) for c in zs if c.split()[10] == "-"][:(300 if thorough else 100)]
    out += [z(c) for c in r.sample(zs, min(len(zs), 1500 if thorough else 300))]
    out += nocfr
    return out


def run_impl(ctx, cases):
    alt = [i for i, c in enumerate(cases) if c.startswith("~ ")]
    if alt:
        a = set(alt)
        main = iter(run_impl(ctx, [c for i, c in enumerate(cases) if i not in a]))
        rc, o, err = ctx.run_lines([ctx.path("drv_c14_nocfr")], [cases[i][2:] for i in alt], timeout=900)
        o = o + ["CRASH rc=%d %s" % (rc, err.strip().split("\n")[0][:200] if err.strip() else "")] * (len(alt) - len(o))
        o = iter(o)
        return [next(o) if i in a else next(main) for i in range(len(cases))]
    rc, out, err = ctx.run_lines([ctx.path("drv_c14")], cases, timeout=1500)
    if rc != 0:
        out = out + ["CRASH rc=%d %s" % (rc, err.strip().split("\n")[0][:200] if err.strip() else "")] * (len(cases) - len(out))
    if not hasattr(ctx, "c14_x"):
        ctx.c14_x = {}
    for c, l in zip(cases, out):
        if c.startswith("X ") and " || " in l:
            ctx.c14_x[c] = l.split(" || ")[1]
    return out


def run_model(ctx, cases):
    """X cases (real cross-filesystem copy) are given to the model as the K case whose script has the answer the
    real kernel gave to the first copy_file_range call; only the observable part is compared for them."""
    conv = []
    for c in cases:
        if c.startswith("~ "):
            t = c[2:].split()           # fault-free case: the observable part does not depend on which path copies
            t[9] = t[9].lstrip("z")
            if t[1] == "I":
                t[1] = "O"
            if t[5] not in ("0", "1"):
                t[5] = "0"
            conv.append(" ".join(t))
        elif c.startswith("X "):
            t = c.split()
            info = dict(kv.split("=") for kv in getattr(ctx, "c14_x", {}).get(c, "xfs=0 cfr=0 bs=4096").split())
            e = int(info.get("cfr", "0"))
            bs = int(info.get("bs", "4096"))
            conv.append(mk("R", "@%s:%s" % (t[1], t[2]) if t[1] != "0" else "-", "N", "-", 0, bs, bs, "A", 0,
                           (["F"] * 5 + ["E%d" % e]) if e > 0 else []))
        elif c.startswith("K ") and (c.split()[9].startswith("z") or c.split()[1] == "I" or c.split()[5] not in "01"):
            t = c.split()               # descriptor 0 closed for the call: descriptor numbers are not part of the model
            t[9] = t[9].lstrip("z")
            if t[1] == "I":             # a FIFO is "neither regular nor a directory" like the character device
                t[1] = "O"
            if t[5] not in ("0", "1"):  # an option value with other bits: the code overwrites only for the value 1
                t[5] = "0"
            conv.append(" ".join(t))
        else:
            conv.append(c)
    ms, ss = ctx.run_model("drv_c14", conv, timeout=1500)
    for i, c in enumerate(cases):
        if c.startswith("K ") and c.split()[5] not in ("0", "1"):
            # an option value with other bits set: whether it counts as "the overwrite option" is not the property's
            # business; what remains is: the source is never modified, SUCCESS only for a complete copy (l1_extra)
            w = ss[i].split()
            for k in range(0, len(w) - 1, 2):
                if w[k] in ("st=", "dst="):
                    w[k + 1] = "*"
            ss[i] = " ".join(w)
    for i, c in enumerate(cases):
        if c.startswith("X "):
            ms[i] = vlib.obs(ms[i]) + " || " + getattr(ctx, "c14_x", {}).get(c, "?")
        elif c.startswith("~ "):
            ms[i] = "="                 # the call trace of this configuration is not modelled: spec only
    return ms, ss


def l1_extra(case, impl_obs):
    """the conditional parts of the property, as predicates on the implementation's own output"""
    if case.startswith("~ "):
        case = case[2:]
    w = impl_obs.split()
    t = {w[i].rstrip("="): w[i + 1] for i in range(0, len(w) - 1, 2)}
    if t.get("fds") != "0":
        return False
    regular = case.startswith("X ") or case.split()[1] == "R"
    if t.get("st") == "SUCCESS":
        if not regular or t.get("dst") != "F:" + t.get("src", "?"):
            return False      # SUCCESS only for a complete copy of a regular source
    if case.startswith("X ") and t.get("st") != "SUCCESS":
        return False
    return True


def nontrivial(c):
    t = c.split()
    if t[0] == "~":
        t = t[1:]
    return t[0] == "K" and t[1] == "R"


def tokens(case):
    t = case.split()
    if t[0] != "K":
        return [case + "|"]     # (also the "~ " cases: they have no script to shrink)
    pre = " ".join(t[:10])
    items = [] if t[10] == "-" else t[10].split(",")
    return [pre + "|" + x for x in items] or [pre + "|"]


def untokens(toks):
    pre = toks[0].split("|")[0]
    if not pre.startswith("K "):
        return pre
    items = [x.split("|")[1] for x in toks if x.split("|")[1]]
    return pre + " " + (",".join(items) or "-")


def stats(cases, impl):
    st = {}
    for l in impl:
        k = l.split()[0] if l else "?"
        st[k] = st.get(k, 0) + 1
    kinds = {}
    for c in cases:
        t = c.split()
        if t[0] == "K":
            k = "src=%s dst=%s opt=%s alloc=%s" % (t[1], t[3], t[5], t[8][0])
            kinds[k] = kinds.get(k, 0) + 1
    faults = sum(1 for c in cases if c.startswith("K") and "E" in c.split()[10])
    shorts = sum(1 for c in cases if c.startswith("K") and "S" in c.split()[10])
    x = [l for c, l in zip(cases, impl) if c.startswith("X ")]
    return {"status_histogram": st, "configurations": kinds, "cases_with_error_fault": faults,
            "cases_with_short_count": shorts, "cross_filesystem_smoke": x}
