"""C11 — zix_path_lexically_normal versus the C++17 normal form (PathNorm*).

case line  = the path string in hex ("-" = empty string)
impl line  = root=<b> elems=<hex,..> nf=<b> || t=<hex of result>
             (observable part computed from the C driver's result text by the extracted Coq spec
              functions has_root / elems / is_normal_form; structural part printed by the C driver)
M line     = the same, from the faithful Coq model;   S line = root/elems of std_normal, nf=true
"""
import itertools
import os

import vlib

PROPS = "Properties_C11"
# leaf functions / constants of path.c are re-translated from the C source on every run (tools/translate_leaf.py ->
# coq/gen/Leaf.v, Constants.v) and re-proved equal to the model's (coq/Properties_leaf_path.v)
EXTRA_PROPS = ["Properties_leaf_path"]


def REGEN(ctx):
    vlib.regen_leaf(ctx, ["Path"])


RULE = ("every string over {'/','.','a'} up to length 9 (quick) / 12 (thorough), every sequence of up to 6 (quick) / 8 "
        "(thorough) elements from {'..','.','a','...'} with 0-2 leading and 0-1 trailing separators, plus random longer strings "
        "built from an element pool ('.', '..', '...', 'a..', '..a', names, high bytes) with random separator "
        "runs; non-trivial = contains a dot element, a dot-dot element, a repeated separator or a trailing separator")
ASSUMPTIONS = [
    "POSIX build of path.c (separator '/', no root name); the Windows branch is not modelled",
    "the result buffer is modelled as a list of len+2 bytes; reads/writes outside it are not modelled but "
    "observed by ASan on every generated case (exact-size calloc block, exact-size input block)",
    "libstdc++ 12 std::filesystem::path::lexically_normal is the executable meaning of 'the C++17 model'; the Coq "
    "spec std_normal is compared with it on every run (text equality, exhaustive small strings)",
    "zix_normal_correct covers every C string (no NUL byte) with len + 2 < 2^64; the tie model<->code is "
    "differential testing (exhaustive small strings + random), not proof",
]
ALPHA = [0x2f, 0x2e, 0x61]


def hexs(bs):
    return "".join("%02x" % b for b in bs) or "-"


def unhex(c):
    return b"" if c == "-" else bytes.fromhex(c)


def _stale(target, sources):
    if not os.path.exists(target):
        return True
    t = os.path.getmtime(target)
    return any(os.path.getmtime(s) > t for s in sources if os.path.exists(s))


def build(ctx):
    ctx.build_driver("drv_c11", ["path.c", "allocator.c", "string_view.c"])
    ctx.cc([os.path.join(vlib.HARNESS, "std_path_c11.cpp")], ctx.path("std_path_c11"), cxx=True, sanitize=False)
    exe = os.path.join(vlib.OCAML_BUILD, "drv_c11")
    srcs = [os.path.join(vlib.COQ, f) for f in ("PathNormSpec.v", "PathNormModel.v", "ExtractC11.v")]
    srcs.append(os.path.join(vlib.VERIF, "ocaml", "drv_c11.ml"))
    if _stale(exe, srcs):
        rc, out, err = vlib.sh([os.path.join(vlib.VERIF, "tools", "build_models.sh"), "C11"], timeout=600)
        if rc != 0:
            raise vlib.BuildError("model build failed: " + (out + err)[-500:])
    validate_spec(ctx)


def exhaustive(maxlen):
    out = []
    for n in range(0, maxlen + 1):
        for t in itertools.product(ALPHA, repeat=n):
            out.append(hexs(t))
    return out


POOL = [b".", b"..", b"...", b"....", b"a", b"b", b"a..", b"..a", b"a.", b".a", b"a.b", b"x..y", b"ab..", b"\xc3\xa9",
        b"-", b" ", b"a...", b". .", b"..."]


def random_paths(r, n, maxel=9):
    out = []
    for _ in range(n):
        k = r.randint(0, maxel)
        s = b"/" * r.choice([0, 0, 1, 1, 1, 2, 3])
        for j in range(k):
            e = r.choice(POOL) if r.random() < 0.8 else bytes(r.choice([0x2e, 0x61, 0x62, 0x2e, 0x7a, 0xff, 0x01])
                                                               for _ in range(r.randint(1, 5)))
            s += e
            if j < k - 1 or r.random() < 0.4:
                s += b"/" * r.choice([1, 1, 1, 2, 3])
        out.append(hexs(s))
    return out


def element_exhaustive(maxel, elems=(b"..", b".", b"a", b"...")):
    """every sequence of up to maxel elements, with 0/1/2 leading separators and with/without a trailing one:
    reaches deep '..'-cancellation patterns (e.g. '../a/../..') that byte-level enumeration gets to only at length 10+"""
    out = []
    for n in range(0, maxel + 1):
        for seq in itertools.product(elems, repeat=n):
            body = b"/".join(seq)
            for pre in (b"", b"/", b"//"):
                for suf in (b"", b"/"):
                    out.append(hexs(pre + body + suf))
    return out


def deep_paths(r, thorough):
    """k pending names, then j '..' elements (any fixed-size bookkeeping of pending names shows at its boundary), then
    an optional tail; relative and absolute; names of one and of several characters"""
    out = []
    ks = [1, 2, 7, 8, 9, 15, 16, 17, 31, 32, 33, 34, 63, 64, 65] + ([100, 127, 128, 129, 255, 256, 257, 1000] if thorough else [])
    for k in ks:
        for j in sorted(set([1, 2, k - 1, k, k + 1, k // 2])):
            if j < 1:
                continue
            for pre in (b"", b"/"):
                names = [(b"d%02d" % (i % 100)) if r.random() < 0.5 else b"a" for i in range(k)]
                body = b"/".join(names + [b".."] * j)
                for tail in (b"", b"/", b"/x", b"/."):
                    out.append(hexs(pre + body + tail))
    return out


def validate_spec(ctx):
    """Coq std_normal (extracted) == libstdc++ lexically_normal, as text."""
    maxlen = 11 if ctx.tier == "thorough" else 8
    cases = exhaustive(maxlen) + random_paths(ctx.rng("specval"), 3000 if ctx.tier == "quick" else 20000)
    rc, std, err = ctx.run_lines([ctx.path("std_path_c11")], cases)
    if rc != 0 or len(std) != len(cases):
        raise vlib.BuildError("libstdc++ oracle failed: rc=%d %s" % (rc, err[-300:]))
    rc, sp, err = ctx.run_lines([os.path.join(vlib.OCAML_BUILD, "drv_c11"), "spec"], cases)
    if rc != 0 or len(sp) != len(cases):
        raise vlib.BuildError("spec driver failed: rc=%d %s" % (rc, err[-300:]))
    # compared as PATHS (root flag + elements, i.e. std operator==), which is what the property demands;
    # libstdc++ keeps the text of a root-only input ("//" -> "//"), so text equality is only counted
    exe = os.path.join(vlib.OCAML_BUILD, "drv_c11")
    rc1, cstd, _ = ctx.run_lines([exe, "canon"], std)
    rc2, csp, _ = ctx.run_lines([exe, "canon"], sp)
    if rc1 or rc2 or len(cstd) != len(cases) or len(csp) != len(cases):
        raise vlib.BuildError("canon driver failed in spec validation")
    strip = lambda l: " ".join(l.split()[:2])
    bad = [i for i in range(len(cases)) if strip(cstd[i]) != strip(csp[i]) or " nf=true" not in csp[i]]
    text_diff = sum(1 for i in range(len(cases)) if std[i] != sp[i])
    ctx.c11_specval = {"strings_compared_with_libstdc++": len(cases), "max_exhaustive_length": maxlen,
                       "disagreements_as_paths": len(bad), "text_differences_root_only_results": text_diff}
    ctx.log("spec validation vs libstdc++: %d strings, %d disagreements as paths (%d text differences)"
            % (len(cases), len(bad), text_diff))
    if bad:
        i = bad[0]
        ctx.broken.append("spec-validation: std_normal != libstdc++ on %s (coq %s, libstdc++ %s)" % (cases[i], sp[i], std[i]))


def gen(ctx, seed, tier):
    r = ctx.rng("gen", seed)
    if seed == ctx.seed:
        cases = exhaustive(12 if tier == "thorough" else 9)
        cases += element_exhaustive(8 if tier == "thorough" else 6)
        cases += element_exhaustive(6 if tier == "thorough" else 4, (b"..", b".", b"a", b"a..", b"..a", b"....", b"b."))
    else:   # extra seeds of the search: random only (the exhaustive part is seed-independent)
        cases = []
    cases += random_paths(r, 4000 if tier == "quick" else 40000)
    cases += random_paths(r, 300 if tier == "quick" else 3000, maxel=40)
    if seed == ctx.seed:
        cases += deep_paths(r, tier == "thorough")
    return cases


def corpus(ctx):
    p = os.path.join(vlib.VERIF, "corpus", "C11.txt")
    if not os.path.exists(p):
        return []
    return [l.split("#")[0].strip() for l in open(p) if l.split("#")[0].strip()]


def targeted(ctx):
    """inputs aimed at each rule of the normaliser, for the search after a broken proof/correspondence"""
    t = [b"", b".", b"./", b"a/.", b"a/./", b"/.", b"/./", b"a/..", b"a/../", b"a/b/..", b"a/b/../", b"../..",
         b"../../a", b"/..", b"/../", b"/../a", b"/../../a", b"a//b", b"a/b//", b"/", b"a", b"a/", b"./a", b"././a",
         b"a/./b", b"a/../b", b"a/b/../../c", b"a/b/c/../..", b"../a/..", b"..", b"../", b"a/../..", b".a/..",
         b"a.b/../c", b"..a", b".a", b"a.", b"a/..a", b"/a/../..", b"/a/b/../../..", b"ab/cd/../ef/./gh/"]
    return [hexs(x) for x in t]


def run_impl(ctx, cases):
    """C driver (ASan/UBSan), then the observable part via the extracted spec functions."""
    raw = []
    rest = list(cases)
    crashes = 0
    while rest:
        rc, out, err = ctx.run_lines([ctx.path("drv_c11")], rest)
        out = [l for l in out[:len(rest)] if l]
        raw += out
        if len(out) >= len(rest):
            break
        # the driver died on case len(out): record, carry on with the remainder
        first = next((l for l in err.split("\n") if "ERROR" in l or "runtime error" in l), err.strip().split("\n")[0] if err.strip() else "")
        first = first.replace("==", " ").strip()
        import re as _re
        first = _re.sub(r"0x[0-9a-f]+", "ADDR", _re.sub(r"^\d+\s*", "", first))[:160]
        raw.append("CRASH rc=%d %s" % (rc, first))
        rest = rest[len(out) + 1:]
        crashes += 1
        if crashes >= 25:
            raw += ["CRASH (not run: too many crashes)"] * len(rest)
            break
    texts = []
    for l in raw:
        texts.append(l.split()[0][2:] if l.startswith("t=") else l.split()[0] if l else "C")
    rc, can, err = ctx.run_lines([os.path.join(vlib.OCAML_BUILD, "drv_c11"), "canon"], texts)
    if rc != 0 or len(can) != len(raw):
        raise vlib.BuildError("canon driver failed rc=%d %s" % (rc, err[-300:]))
    res = []
    for l, c in zip(raw, can):
        res.append("%s || %s" % (c, l) if l.startswith("t=") else l)
    return res


def run_model(ctx, cases):
    return ctx.run_model("drv_c11", cases)


def elements(s):
    rel = s.lstrip(b"/")
    if not rel:
        return []
    f = rel.split(b"/")
    return [e for e in f[:-1] if e] + [f[-1]]


def in_class(s):
    """the four input classes of the FORMER findings C11-A..D (repaired by fix: commits in /repo); used for
    the input distribution statistics and, should a finding ever be recorded again, by classify"""
    es = elements(s)
    out = []
    if s.startswith(b"//"):
        out.append("C11-A")
    if any(len(e) >= 3 and e.strip(b".") == b"" for e in es):
        out.append("C11-B")
    if any(len(e) >= 3 and e.strip(b".") != b"" and e.endswith(b"..") for e in es):
        out.append("C11-C")
    if b".." in es and s.endswith(b"/."):
        out.append("C11-D")
    return out


def classify(case, impl, model, spec):
    # only meaningful while props/C11.findings.json lists known findings (none at present)
    cl = in_class(unhex(case))
    return cl[0] if cl else None


def nontrivial(c):
    s = unhex(c)
    es = elements(s)
    return b"." in es or b".." in es or b"//" in s or s.endswith(b"/")


def tokens(case):
    return list(unhex(case))


def untokens(toks):
    return hexs(toks)


def stats(cases, impl):
    d = {"len_le_4": 0, "len_5_8": 0, "len_9_11": 0, "len_ge_12": 0,
         "former_class_A": 0, "former_class_B": 0, "former_class_C": 0, "former_class_D": 0, "outside_former_classes": 0, "no_field_ending_in_dotdot": 0,
         "with_dotdot_element": 0, "absolute": 0}
    for c in cases:
        s = unhex(c)
        n = len(s)
        d["len_le_4" if n <= 4 else "len_5_8" if n <= 8 else "len_9_11" if n <= 11 else "len_ge_12"] += 1
        cl = in_class(s)
        for k in cl:
            d["former_class_" + k[-1]] += 1
        es = elements(s)
        if not cl:
            d["outside_former_classes"] += 1
        if not s.startswith(b"//") and not any(e.endswith(b"..") for e in es):
            d["no_field_ending_in_dotdot"] += 1
        if b".." in es:
            d["with_dotdot_element"] += 1
        if s.startswith(b"/"):
            d["absolute"] += 1
    d["results_not_normal_form"] = sum(1 for l in impl if " nf=false" in l)
    return d


def check(ctx):
    rc = vlib.standard_check(ctx, __import__("props.c11", fromlist=["x"]))
    # add the spec-validation numbers to the evidence written by standard_check
    import json
    p = os.path.join(vlib.VERIF, "evidence", ctx.pid + ".json")
    if os.path.exists(p) and hasattr(ctx, "c11_specval"):
        ev = json.load(open(p))
        ev["coverage"]["spec_validation"] = ctx.c11_specval
        json.dump(ev, open(p, "w"), indent=1)
    return rc
