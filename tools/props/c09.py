"""C09 — bump allocator: in-bounds, aligned, disjoint blocks or NULL.

case   : <A> <C> <mem> <op> ...     A = buffer address (the C driver maps a region at a fixed address, so A is exact),
         C = capacity, mem=1: small arena with dirtied memory and write detection, mem=0: nominal (huge) capacity.
         mem=1n / 0n: a history RESERVED for the library's normal build (-DNDEBUG, assertions compiled out): it has
         aligned_alloc requests whose size is not a multiple of the alignment; model = BumpNdebug.bump_run_nd,
         spec = BumpNdebug.spec_check_nd (theorems: coq/Properties_C09_ndebug.v); only gen_ndebug produces them.
ops    : M<n> C<nmemb>,<size> R<id|N>,<n> F<id|N> A<alignment>,<n> E<id|N>   (id = index of the op that allocated)
output : one token per op (p<offset>[z<0|1>] | NULL | void | skip | ABORT) || i<top>,<last> then <top>,<last>,<bytes written>
L1     : the extracted Coq spec checker (BumpSpec.spec_check: shadow list of live blocks + frontier) judges the
         implementation's own responses; L2: whole line equals the extracted model's line.
"""
import os

import vlib

PROPS = "Properties_C09"
NDEBUG_TOO = True     # the library's normal build compiles assertions out: the same histories run against that build too


def is_nd(case):
    """the case carries the flag n after the mem digit: NDEBUG semantics (model bump_run_nd, spec spec_check_nd)"""
    t = case.split(None, 3)
    return len(t) >= 3 and t[2].endswith("n")


def ndebug_case(case, model_line):
    """histories whose expected outcome contains an assertion failure have no counterpart without assertions
    (for a flagged case ABORT can only mean an alignment that is not a power of two >= 8: undefined without the
    assertion, never generated)"""
    return "ABORT" not in model_line

# leaf functions / constants of bump_allocator.c are re-translated from the C source on every run (tools/translate_leaf.py ->
# coq/gen/Leaf.v, Constants.v) and re-proved equal to the model's (coq/Properties_leaf_bump.v)
# Properties_C09_ndebug: aligned_alloc without the size assertion (the normal build), every size
EXTRA_PROPS = ["Properties_leaf_bump", "Properties_C09_ndebug"]


def REGEN(ctx):
    vlib.regen_leaf(ctx, ["Bump"])


BASE = 0x200000000000
REGION = 8 << 20
W = 1 << 64
RULE = ("request histories (1..40 ops of malloc/calloc/realloc/free/aligned_alloc/aligned_free, frees in arbitrary "
        "order, NULL and stale pointers) on buffers at every address residue mod 8 (and random residues mod 2^16), "
        "capacities 0..200 (some to 4096) with dirtied memory plus nominal capacities up to 2^63-1; sizes drawn "
        "from {0,1,7,8,9,..., remaining+-{0,1,7,8,9}, 2^63, 2^64-k, overflowing calloc products}; plus ALL histories of "
        "depth 3 (quick) / 4 (thorough) over {M0,M8,M9,C1x9,A16x16,R<j>,1,R<j>,17,F<j>} x 8 residues x capacities {16,24,40}; a case is "
        "non-trivial when it has >= 2 successful allocations and >= 1 free/realloc/aligned request, distinct case "
        "strings counted.  All of these (minus those the model answers with ABORT) are run a second time against the "
        "sources built with -DNDEBUG, together with histories reserved for that build (flag n; counted separately "
        "under ndebug_build / ndebug_reserved): the same generators and capacities/residues, but aligned_alloc sizes "
        "that are NOT multiples of the alignment (1, 20, odd, al+-1, k*al+-1, remaining+-{0,1,7,8,9}, huge), each "
        "followed by malloc/calloc/realloc/free/aligned requests; scripted ones on every residue x capacities 0..56; "
        "judged by spec_check_nd and compared with bump_run_nd")
ASSUMPTIONS = [
    "buffer address A > 0 and A + C < 2^64 (true of every real buffer); 64-bit size_t/uintptr_t (static assert in the driver)",
    "the theorems cover every capacity with A + C < 2^64; the differential runs use capacities <= PTRDIFF_MAX (2^63-1), "
    "the largest object C allows (beyond it the code's own pointer arithmetic is undefined and UBSan stops it)",
    "caller protocol: free/realloc only of live blocks or NULL (stale pointers are not passed on: 'skip'); frees in any order are in scope",
    "aligned_alloc preconditions as asserted by the code: alignment a power of two >= 8, size a multiple of it (violations: both sides must abort)",
    "NDEBUG build: the size need not be a multiple of the alignment (modelled and proved for every size: Properties_C09_ndebug); "
    "the alignment must still be a power of two >= 8 (without the assertion a violation is undefined: never requested)",
    "a zero-size block occupies one unit (it has an address of its own), as the repaired code does",
]

BIG = [1 << 63, (1 << 63) - 1, (1 << 63) + 1, W - 1, W - 2, W - 7, W - 8, W - 9, W - 15, W - 16, W - 17, W - 21,
       1 << 62, 1 << 32, (1 << 32) + 1]
SMALL = [0, 0, 1, 1, 7, 8, 8, 9, 13, 15, 16, 17, 24, 32, 40, 64]


def rup(n, f=8):
    return ((n + f - 1) % W) & ~(f - 1) & (W - 1)


class Sim:
    """generator-side steering only (which sizes are near the boundary, which ids are live)"""

    def __init__(self, A, C):
        self.A, self.C = A, C
        self.top = self.last = (8 - A % 8) % 8
        self.live = {}

    def malloc(self, n, idx):
        real = rup(n if n else 1)
        if real < n or self.top > self.C or real > self.C - self.top:
            return False
        self.last = self.top
        self.top += real
        self.live[idx] = self.last
        return True

    def aligned(self, al, n, idx):
        ta = self.A + self.top
        off = (rup(ta, al) - ta) % W
        if (self.top + off) % W > self.C:
            return False
        old = (self.top, self.last)
        self.top += off
        if not self.malloc(n, idx):
            self.top, self.last = old
            return False
        return True

    def realloc(self, idx, n):
        if idx not in self.live or self.live[idx] != self.last:
            return False
        real = rup(n if n else 1)
        if real < n or self.last > self.C or real > self.C - self.last:
            return False
        self.top = self.last + real
        return True

    def free(self, idx):
        off = self.live.pop(idx, None)
        if off is not None and off == self.last:
            self.top = self.last


def pick_size(r, rem):
    x = r.random()
    if x < 0.45:
        return r.choice(SMALL)
    if x < 0.82:
        return max(0, min(W - 1, rem + r.choice([0, 0, 1, -1, 8, -8, 7, -7, 9, -9, -15, -16, 16])))
    if x < 0.90:
        return r.choice(BIG)
    if x < 0.97:
        return r.randint(0, max(1, rem + 16))
    return r.randint(0, W - 1)


def nd_size(r, al, rem, pad):
    """a size for aligned_alloc(al, .) that is (almost always) NOT a multiple of al"""
    room = rem - pad
    x = r.random()
    if x < 0.30:
        n = r.choice([1, 1, 7, 9, 12, 13, 15, 17, 20, 20, 23, 25, 33, 41, 57])
    elif x < 0.50:
        n = r.choice([al + 1, al - 1, al + 4, al - 4, al + 8, al - 8, al // 2, al // 2 + 1, 2 * al - 1, 2 * al + 1, 3 * al - 7])
    elif x < 0.85:
        n = room + r.choice([0, 0, 1, -1, 7, -7, 8, -8, 9, -9, -15, -16, -17, 4, -4])
    elif x < 0.92:
        n = r.choice(BIG + [W - al + 1, W - al - 1, W - 3, (1 << 63) + 5])
    else:
        n = r.randint(0, max(1, room + 16))
    n = max(0, min(W - 1, n))
    if n % al == 0 and r.random() < 0.9:
        n = n + r.choice([1, 3, 4, 7]) if n + 7 < W else n - 1
    return n


def gen_case(r, big=False, maxops=25, residue=None, nd=False):
    low = r.randrange(8) if residue is None else residue
    hi = r.choice([0, 0, 8, 16, 32, 64, 128, 2048, 4096 - 8, 65536 - 8, r.randrange(0, 1 << 16) & ~7])
    A = BASE + (1 << 20) + hi + low
    if big:
        P = (1 << 63) - 1            # PTRDIFF_MAX: larger objects do not exist in C (UBSan rejects the pointer arithmetic)
        C = r.choice([1 << 20, 1 << 40, 1 << 62, P, P - 1, P - 7, P - 8, P - r.randrange(64), r.randrange(1 << 21, P)])
    else:
        x = r.random()
        C = r.randrange(0, 17) if x < 0.2 else r.randrange(0, 201) if x < 0.9 else r.randrange(200, 4097)
    sim = Sim(A, C)
    ops = []
    nops = r.randint(1, maxops)
    allocs = []                         # indices of allocation ops (successful or not)
    for i in range(nops):
        k = r.choices("MCRFAE", weights=[24, 10, 16, 16, 28, 6] if nd else [30, 12, 16, 18, 12, 4])[0]
        rem = sim.C - sim.top
        if k in "RFE" and not sim.live and r.random() < 0.8:
            k = "M"

        def target():
            x = r.random()
            live = sorted(sim.live)
            if x < 0.05:
                return "N"
            if x < 0.10 or not live:
                return str(r.choice(allocs)) if allocs and r.random() < 0.7 else str(r.randrange(0, i + 1))
            if x < 0.55:
                return str(live[-1])
            return str(r.choice(live))
        if k == "M":
            n = pick_size(r, rem)
            sim.malloc(n, i)
            allocs.append(i)
            ops.append("M%d" % n)
        elif k == "C":
            x = r.random()
            if x < 0.6:
                sz = r.choice([1, 1, 2, 3, 4, 8, 16])
                nm = pick_size(r, rem) // sz if r.random() < 0.8 else r.choice(SMALL)
            elif x < 0.7:
                nm, sz = r.choice([(0, 8), (8, 0), (0, 0), (0, W - 1), (W - 1, 0)])
            else:
                nm, sz = r.choice([(1 << 63, 2), (1 << 32, 1 << 32), ((1 << 32) + 1, 1 << 32), (W - 1, 1), (1, W - 1),
                                   (W - 1, W - 1), (1 << 61, 8), ((1 << 61) + 1, 8), (3, 0x5555555555555556),
                                   (1 << 62, 4), (r.randint(0, W - 1), r.randint(0, W - 1))])
            tot = nm * sz
            would = tot < W and sim.top <= sim.C and rup(tot if tot else 1) >= tot and rup(tot if tot else 1) <= sim.C - sim.top
            if big and would and (tot > 4096 or A + sim.top + tot + 8 > BASE + REGION):
                ops.append("M%d" % tot)          # no real memset over unmapped memory, no long unary loops in the model
                sim.malloc(tot, i)
            else:
                if tot < W:
                    sim.malloc(tot, i)
                ops.append("C%d,%d" % (nm, sz))
            allocs.append(i)
        elif k == "A":
            x = r.random()
            if x < 0.8:
                al = r.choice([8, 8, 16, 16, 32, 64, 128, 256, 4096])
            elif x < 0.9:
                al = 1 << r.randrange(3, 24)
            else:
                al = 1 << r.randrange(24, 64)
            pad = (-(A + sim.top)) % al
            kmax = max(0, (rem - pad)) // al
            cnt = r.choice([0, 1, 1, 2, kmax, kmax, kmax + 1, max(0, kmax - 1), (W // al) - 1])
            n = min(cnt, (W - 1) // al) * al
            if nd and r.random() < 0.85:
                n = nd_size(r, al, rem, pad)
            sim.aligned(al, n, i)
            allocs.append(i)
            ops.append("A%d,%d" % (al, n))
        elif k == "R":
            t = target()
            remr = sim.C - sim.last
            n = pick_size(r, remr)
            if t != "N":
                sim.realloc(int(t), n)
            ops.append("R%s,%d" % (t, n))
        else:
            t = target()
            if t != "N":
                sim.free(int(t))
            ops.append("%s%s" % (k, t))
    # rarely: end with a request outside aligned_alloc's preconditions (both sides must abort)
    if not nd and r.random() < 0.02:
        ops.append(r.choice(["A0,0", "A4,8", "A24,48", "A16,8", "A12,24", "A8,12", "A1,5"]))
        ops.append("M8")
    if nd and not any(odd_aligned(o) for o in ops[:-1]):
        # at least one aligned request with a size the assertion would refuse, and something after it
        al = r.choice([8, 16, 16, 32, 64])
        i = len(ops)
        n = nd_size(r, al, sim.C - sim.top, (-(A + sim.top)) % al)
        if n % al == 0:
            n += 1
        sim.aligned(al, n, i)
        ops.append("A%d,%d" % (al, n))
        ops.append(r.choice(["M1", "M8", "M0", "A8,1", "A16,16", "R%d,9" % i, "F%d" % i] + ([] if big else ["C1,3"])))
    return "%d %d %d%s %s" % (A, C, 0 if big else 1, "n" if nd else "", " ".join(ops))


def odd_aligned(op):
    """an aligned_alloc request whose size is not a multiple of its alignment"""
    if op[0] != "A":
        return False
    al, n = op[1:].split(",")
    return int(al) > 0 and int(n) % int(al) != 0


def gen(ctx, seed, tier):
    r = ctx.rng("gen", seed)
    n_small, n_big = (12000, 3000) if tier == "quick" else (200000, 50000)
    cases = []
    for i in range(n_small):
        cases.append(gen_case(r, False, maxops=25 if i % 7 else 40, residue=i % 8))
    for i in range(n_big):
        cases.append(gen_case(r, True, maxops=16, residue=i % 8))
    cases += sweep(8 if tier == "quick" else 3)
    cases += exhaustive(3, [16, 24, 40]) if tier == "quick" else exhaustive(4, [16, 24, 40])
    return cases


# histories for the build without assertions: aligned_alloc with sizes that are not multiples of the alignment,
# then requests of every kind (the next block must again be 8-aligned and apart; realloc/free of the odd block)
SCRIPTS_ND = [
    "A16,20 M1", "A16,20 M8 M8", "A8,1 A8,7 A8,9 M1", "A16,1 M8 F0 M1", "A32,33 R0,41 A8,1 F2 C1,7", "A16,17 F0 A16,15 M0",
    "M3 A64,1 E1 A16,9 R2,30 M1", "A16,0 A16,20 A8,12 M8", "A16,12 C1,5 R1,3 M1", "A8,13 R0,20 R0,1 A16,4 E0 E3 M9",
    "M8 A16,9 A16,9 F1 A32,5 M1", "A16,24 A16,40 M1", "A8,20 C3,3 F1 A8,5 RN,8", "A16,15 A16,1 A16,31 F2 F1 F0 A8,47",
]


def sweep_nd(step, caps=57):
    out = []
    for res in range(8):
        for C in range(0, caps):
            for j, s in enumerate(SCRIPTS_ND):
                if (C + j + res) % step == 0:
                    out.append("%d %d 1n %s" % (BASE + (1 << 20) + 64 + res, C, s))
    return out


def exhaustive_nd(depth, caps):
    """ALL histories of the given depth over an alphabet with odd-size aligned requests x 8 residues x capacities"""
    base = ["M1", "M8", "A16,20", "A8,1", "A16,9"]
    hist = [[]]
    for i in range(depth):
        alpha = base + [x for j in range(i) for x in ("R%d,9" % j, "F%d" % j)]
        hist = [h + [a] for h in hist for a in alpha]
    hist = [h for h in hist if any(odd_aligned(o) for o in h[:-1])]
    out = []
    for res in range(8):
        for C in caps:
            hdr = "%d %d 1n " % (BASE + (1 << 20) + 128 + res, C)
            out += [hdr + " ".join(h) for h in hist]
    return out


# regression inputs for the NDEBUG pass (they cannot live in corpus/C09.txt: the corpus also runs against the default
# build, where these requests stop at the assertion): found by this check on seeded changes of aligned_alloc
ND_CORPUS = [
    "35184373199224 37 1n A32,17 C0,16",        # aligned_alloc that commits top itself without rounding the size
    "35184373137472 64 1n A16,20 M1",
    "35184373137475 100 1n M3 A32,33 R1,41 A8,1 F3 C1,7",
]


def gen_ndebug(ctx, seed, tier):
    """cases reserved for the pass against the sources built with -DNDEBUG (the library's normal configuration):
    histories with aligned_alloc sizes that the assertion of the default build refuses"""
    r = ctx.rng("gen-ndebug", seed)
    n_small, n_big = (420, 100) if tier == "quick" else (4500, 1200)
    cases = list(ND_CORPUS)
    for i in range(n_small):
        cases.append(gen_case(r, False, maxops=16 if i % 7 else 30, residue=i % 8, nd=True))
    for i in range(n_big):
        cases.append(gen_case(r, True, maxops=12, residue=i % 8, nd=True))
    cases += sweep_nd(16 if tier == "quick" else 2)
    if tier != "quick":
        cases += exhaustive_nd(3, [24, 40])
    seen, out = set(), []
    for c in cases:
        if c not in seen:
            seen.add(c)
            out.append(c)
    ctx.c09_nd_reserved = out
    return out


SCRIPTS = [
    "M8 M8", "M0 M0 F0 M1", "M1 R0,9 M1", "M8 R0,13 M8", "M8 R0,0 M8 F0 C1,8", "M0 M8 F0 M8", "C1,8 C2,4 F1 C1,8",
    "A16,16 M8 A16,16", "A32,32 F0 A16,16 M1", "M8 M8 F0 F1 M8", "M8 M8 F1 F0 M8", "M16 R0,8 R0,24 F0", "A64,64 R0,8 E0 M8",
    "M8 A64,0 A8,8 E1 F2", "C3,3 R0,100 RN,8 FN M7",
]


def sweep(step):
    """every residue x capacities 0..48 x the scripted histories (the boundary of every capacity test)"""
    out = []
    for res in range(8):
        for C in range(0, 49, 1):
            for j, s in enumerate(SCRIPTS):
                if (C + j + res) % step == 0:
                    out.append("%d %d 1 %s" % (BASE + (1 << 20) + 64 + res, C, s))
    return out


def exhaustive(depth, caps):
    """ALL histories of the given depth over a small request alphabet (sizes around the unit, zero sizes, an
    aligned request, realloc and free of every earlier request) x all 8 address residues x the given capacities"""
    base = ["M0", "M8", "M9", "C1,9", "A16,16"]
    hist = [[]]
    for i in range(depth):
        alpha = base + [x for j in range(i) for x in ("R%d,1" % j, "R%d,17" % j, "F%d" % j)]
        hist = [h + [a] for h in hist for a in alpha]
    out = []
    for res in range(8):
        for C in caps:
            hdr = "%d %d 1 " % (BASE + (1 << 20) + 128 + res, C)
            out += [hdr + " ".join(h) for h in hist]
    return out


def targeted(ctx):
    return corpus(ctx) + sweep(1)


def corpus(ctx):
    p = os.path.join(vlib.VERIF, "corpus", "C09.txt")
    if not os.path.exists(p):
        return []
    return [l.strip() for l in open(p) if l.strip() and not l.startswith("#")]


def build(ctx):
    ctx.build_driver("drv_c09", ["bump_allocator.c", "allocator.c"])
    ctx.c09_impl = {}
    ctx.c09_theorem_runtime_rejects = 0


def run_impl(ctx, cases):
    """the driver survives asserts; a sanitizer stop or crash is attributed to the case being run"""
    out = []
    rest = list(cases)
    guard = 0
    while rest:
        rc, lines, err = ctx.run_lines([ctx.path("drv_c09")], rest)
        lines = lines[:len(rest)]
        out += lines
        if rc == 0 and len(lines) == len(rest):
            break
        k = len(lines)
        if k < len(rest):
            first = [l for l in err.strip().split("\n") if l.strip()]
            out.append("CRASH rc=%d %s" % (rc, (first[0] if first else "")[:160].replace(" || ", " ")))
            rest = rest[k + 1:]
        else:
            break
        guard += 1
        if guard > 200:
            out += ["CRASH too-many-crashes"] * len(rest)
            break
    for c, l in zip(cases, out):
        ctx.c09_impl[c] = vlib.obs(l)
    return out


def run_model(ctx, cases):
    exe = os.path.join(vlib.OCAML_BUILD, "drv_c09")
    if not os.path.exists(exe):
        raise vlib.BuildError("model driver %s missing: run `make -C /verif setup`" % exe)
    missing = [c for c in cases if c not in ctx.c09_impl]
    if missing:
        run_impl(ctx, missing)
    lines = ["%s ## %s" % (c, ctx.c09_impl[c]) for c in cases]
    # shard over a few processes (the extracted model runs on unary/binary Coq numbers)
    nsh = 8 if len(lines) > 400 else 1
    shards = [lines[i::nsh] for i in range(nsh)]
    import concurrent.futures as cf
    with cf.ThreadPoolExecutor(nsh) as ex:
        results = list(ex.map(lambda sh: ctx.run_lines([exe], sh) if sh else (0, [], ""), shards))
    ms, ss = [None] * len(lines), [None] * len(lines)
    for si, (rc, out, err) in enumerate(results):
        if rc != 0:
            raise vlib.BuildError("model driver failed rc=%d: %s" % (rc, err[-1000:]))
        m = [l[2:] for l in out if l.startswith("M ")]
        s = [l[2:] for l in out if l.startswith("S ")]
        t = [l[2:] for l in out if l.startswith("T ")]
        if not (len(m) == len(s) == len(t) == len(shards[si])):
            raise vlib.BuildError("model driver: %d cases, %d/%d/%d lines" % (len(shards[si]), len(m), len(s), len(t)))
        for j in range(len(m)):
            ms[si + j * nsh], ss[si + j * nsh] = m[j], s[j]
            if t[j] != "ok":
                # the spec rejects the MODEL's own trace: theorem bump_safe is contradicted at run time
                ctx.c09_theorem_runtime_rejects += 1
                tag = "theorem-runtime:bump_safe spec rejects the model's trace (%s) on: %s" % (t[j], shards[si][j][:200])
                if not any(b.startswith("theorem-runtime") for b in ctx.broken):
                    ctx.broken.append(tag)
    return ms, ss


def extra_coverage(ctx):
    """what the histories reserved for the NDEBUG build exercised (measured on that build's own output)"""
    cases = getattr(ctx, "c09_nd_reserved", None)
    if not cases:
        return {}
    odd = {"requests": 0, "ptr": 0, "NULL": 0, "other": 0}
    after = {"ptr": 0, "NULL": 0, "void": 0, "skip": 0, "other": 0}
    aligns = {}
    for c in cases:
        ops = c.split()[3:]
        toks = ctx.c09_impl.get(c, "").split()
        seen_odd_ptr = False
        for o, t in zip(ops, toks):
            kind = "ptr" if t.startswith("p") else t if t in ("NULL", "void", "skip") else "other"
            if seen_odd_ptr:
                after[kind] += 1
            if odd_aligned(o):
                odd["requests"] += 1
                odd[kind if kind in odd else "other"] += 1
                al = o[1:].split(",")[0]
                aligns[al if int(al) <= 4096 else ">4096"] = aligns.get(al if int(al) <= 4096 else ">4096", 0) + 1
                seen_odd_ptr = seen_odd_ptr or kind == "ptr"
    return {"ndebug_reserved": {"histories": len(cases), "distinct_nontrivial": len(set(c for c in cases if nontrivial(c))),
                                "aligned_requests_with_size_not_multiple_of_alignment": odd,
                                "responses_after_a_successful_one": after, "alignments": aligns,
                                "nominal_huge_capacity": sum(1 for c in cases if c.split()[2].startswith("0"))}}


def nontrivial(c):
    ops = c.split()[3:]
    if is_nd(c) and not any(odd_aligned(o) for o in ops[:-1]):
        return False        # a reserved history is about what follows an aligned request of odd size
    return sum(o[0] in "MCA" for o in ops) >= 2 and any(o[0] in "RFEA" for o in ops)


# ---- shrinking: tokens are "origindex:op"; pointer arguments are renumbered, references to removed ops become stale
_hdr = [""]


def tokens(case):
    t = case.split()
    _hdr[0] = " ".join(t[:3])
    return ["%d:%s" % (i, o) for i, o in enumerate(t[3:])]


def untokens(toks):
    idx = {}
    for newi, t in enumerate(toks):
        idx[int(t.split(":", 1)[0])] = newi
    ops = []
    for newi, t in enumerate(toks):
        o = t.split(":", 1)[1]
        if o[0] in "RFE":
            body = o[1:].split(",")
            if body[0] != "N":
                body[0] = str(idx.get(int(body[0]), newi))     # own index = never live = stale
            o = o[0] + ",".join(body)
        ops.append(o)
    return _hdr[0] + " " + " ".join(ops)


def stats(cases, impl):
    kinds = {k: 0 for k in "MCRFAE"}
    outcomes = {"ptr": 0, "NULL": 0, "void": 0, "skip": 0, "ABORT": 0, "other": 0}
    residues = [0] * 8
    caps = {"0-16": 0, "17-200": 0, "201-4096": 0, "nominal-huge": 0}
    calloc_zero_checked = 0
    memset_seen = 0
    for c, l in zip(cases, impl):
        t = c.split()
        residues[int(t[0]) % 8] += 1
        C = int(t[1])
        caps["0-16" if C <= 16 else "17-200" if C <= 200 else "201-4096" if C <= 4096 else "nominal-huge"] += 1
        for o in t[3:]:
            kinds[o[0]] = kinds.get(o[0], 0) + 1
        parts = l.split(" || ")
        for tok in parts[0].split():
            if tok.startswith("p"):
                outcomes["ptr"] += 1
                calloc_zero_checked += "z" in tok
            elif tok in outcomes:
                outcomes[tok] += 1
            else:
                outcomes["other"] += 1
        if len(parts) > 1:
            memset_seen += sum(1 for s in parts[1].split()[1:] if not s.endswith(",-"))
    return {"ops_by_kind": kinds, "responses": outcomes, "buffer_address_mod_8": residues, "capacity_classes": caps,
            "calloc_blocks_checked_zero": calloc_zero_checked, "calls_that_wrote_memory": memset_seen,
            "histories": len(cases)}
