"""C09 — bump allocator: in-bounds, aligned, disjoint blocks or NULL.

case   : <A> <C> <mem> <op> ...     A = buffer address (the C driver maps a region at a fixed address, so A is exact),
         C = capacity, mem=1: small arena with dirtied memory and write detection, mem=0: nominal (huge) capacity.
ops    : M<n> C<nmemb>,<size> R<id|N>,<n> F<id|N> A<alignment>,<n> E<id|N>   (id = index of the op that allocated)
output : one token per op (p<offset>[z<0|1>] | NULL | void | skip | ABORT) || i<top>,<last> then <top>,<last>,<bytes written>
L1     : the extracted Coq spec checker (BumpSpec.spec_check: shadow list of live blocks + frontier) judges the
         implementation's own responses; L2: whole line equals the extracted model's line.
"""
import os

import vlib

PROPS = "Properties_C09"
NDEBUG_TOO = True     # the library's normal build compiles assertions out: the same histories run against that build too


def ndebug_case(case, model_line):
    """histories whose expected outcome contains an assertion failure have no counterpart without assertions"""
    return "ABORT" not in model_line

# leaf functions / constants of bump_allocator.c are re-translated from the C source on every run (tools/translate_leaf.py ->
# coq/gen/Leaf.v, Constants.v) and re-proved equal to the model's (coq/Properties_leaf_bump.v)
EXTRA_PROPS = ["Properties_leaf_bump"]


def REGEN(ctx):
    vlib.regen_leaf(ctx, ["Bump"])


BASE = 0x200000000000
REGION = 8 << 20
W = 1 << 64
RULE = ("request histories (1..40 ops of malloc/calloc/realloc/free/aligned_alloc/aligned_free, frees in arbitrary "
        "order, NULL and stale pointers) on buffers at every address residue mod 8 (and random residues mod 2^16), "
        "capacities 0..200 (some to 4096) with dirtied memory plus nominal capacities up to 2^63-1; sizes drawn "
        "from {0,1,7,8,9,..., remaining+-{0,1,7,8,9}, 2^63, 2^64-k, overflowing calloc products}; plus ALL histories of "
        "depth 3 (quick) / 4 (thorough) over {M0,M8,M9,C1x9,A16x16,R<j>,1,R<j>,17,F<j>} x 8 residues x capacities {16,24,40}; a case is "
        "non-trivial when it has >= 2 successful allocations and >= 1 free/realloc/aligned request, distinct case "
        "strings counted")
ASSUMPTIONS = [
    "buffer address A > 0 and A + C < 2^64 (true of every real buffer); 64-bit size_t/uintptr_t (static assert in the driver)",
    "the theorems cover every capacity with A + C < 2^64; the differential runs use capacities <= PTRDIFF_MAX (2^63-1), "
    "the largest object C allows (beyond it the code's own pointer arithmetic is undefined and UBSan stops it)",
    "caller protocol: free/realloc only of live blocks or NULL (stale pointers are not passed on: 'skip'); frees in any order are in scope",
    "aligned_alloc preconditions as asserted by the code: alignment a power of two >= 8, size a multiple of it (violations: both sides must abort)",
    "a zero-size block occupies one unit (it has an address of its own), as the repaired code does",
]

BIG = [1 << 63, (1 << 63) - 1, (1 << 63) + 1, W - 1, W - 2, W - 7, W - 8, W - 9, W - 15, W - 16, W - 17, W - 21,
       1 << 62, 1 << 32, (1 << 32) + 1]
SMALL = [0, 0, 1, 1, 7, 8, 8, 9, 13, 15, 16, 17, 24, 32, 40, 64]


def rup(n, f=8):
    return ((n + f - 1) % W) & ~(f - 1) & (W - 1)


class Sim:
    """generator-side steering only (which sizes are near the boundary, which ids are live)"""

    def __init__(self, A, C):
        self.A, self.C = A, C
        self.top = self.last = (8 - A % 8) % 8
        self.live = {}

    def malloc(self, n, idx):
        real = rup(n if n else 1)
        if real < n or self.top > self.C or real > self.C - self.top:
            return False
        self.last = self.top
        self.top += real
        self.live[idx] = self.last
        return True

    def aligned(self, al, n, idx):
        ta = self.A + self.top
        off = (rup(ta, al) - ta) % W
        if (self.top + off) % W > self.C:
            return False
        old = (self.top, self.last)
        self.top += off
        if not self.malloc(n, idx):
            self.top, self.last = old
            return False
        return True

    def realloc(self, idx, n):
        if idx not in self.live or self.live[idx] != self.last:
            return False
        real = rup(n if n else 1)
        if real < n or self.last > self.C or real > self.C - self.last:
            return False
        self.top = self.last + real
        return True

    def free(self, idx):
        off = self.live.pop(idx, None)
        if off is not None and off == self.last:
            self.top = self.last


def pick_size(r, rem):
    x = r.random()
    if x < 0.45:
        return r.choice(SMALL)
    if x < 0.82:
        return max(0, min(W - 1, rem + r.choice([0, 0, 1, -1, 8, -8, 7, -7, 9, -9, -15, -16, 16])))
    if x < 0.90:
        return r.choice(BIG)
    if x < 0.97:
        return r.randint(0, max(1, rem + 16))
    return r.randint(0, W - 1)


def gen_case(r, big=False, maxops=25, residue=None):
    low = r.randrange(8) if residue is None else residue
    hi = r.choice([0, 0, 8, 16, 32, 64, 128, 2048, 4096 - 8, 65536 - 8, r.randrange(0, 1 << 16) & ~7])
    A = BASE + (1 << 20) + hi + low
    if big:
        P = (1 << 63) - 1            # PTRDIFF_MAX: larger objects do not exist in C (UBSan rejects the pointer arithmetic)
        C = r.choice([1 << 20, 1 << 40, 1 << 62, P, P - 1, P - 7, P - 8, P - r.randrange(64), r.randrange(1 << 21, P)])
    else:
        x = r.random()
        C = r.randrange(0, 17) if x < 0.2 else r.randrange(0, 201) if x < 0.9 else r.randrange(200, 4097)
    sim = Sim(A, C)
    ops = []
    nops = r.randint(1, maxops)
    allocs = []                         # indices of allocation ops (successful or not)
    for i in range(nops):
        k = r.choices("MCRFAE", weights=[30, 12, 16, 18, 12, 4])[0]
        rem = sim.C - sim.top
        if k in "RFE" and not sim.live and r.random() < 0.8:
            k = "M"

        def target():
            x = r.random()
            live = sorted(sim.live)
            if x < 0.05:
                return "N"
            if x < 0.10 or not live:
                return str(r.choice(allocs)) if allocs and r.random() < 0.7 else str(r.randrange(0, i + 1))
            if x < 0.55:
                return str(live[-1])
            return str(r.choice(live))
        if k == "M":
            n = pick_size(r, rem)
            sim.malloc(n, i)
            allocs.append(i)
            ops.append("M%d" % n)
        elif k == "C":
            x = r.random()
            if x < 0.6:
                sz = r.choice([1, 1, 2, 3, 4, 8, 16])
                nm = pick_size(r, rem) // sz if r.random() < 0.8 else r.choice(SMALL)
            elif x < 0.7:
                nm, sz = r.choice([(0, 8), (8, 0), (0, 0), (0, W - 1), (W - 1, 0)])
            else:
                nm, sz = r.choice([(1 << 63, 2), (1 << 32, 1 << 32), ((1 << 32) + 1, 1 << 32), (W - 1, 1), (1, W - 1),
                                   (W - 1, W - 1), (1 << 61, 8), ((1 << 61) + 1, 8), (3, 0x5555555555555556),
                                   (1 << 62, 4), (r.randint(0, W - 1), r.randint(0, W - 1))])
            tot = nm * sz
            would = tot < W and sim.top <= sim.C and rup(tot if tot else 1) >= tot and rup(tot if tot else 1) <= sim.C - sim.top
            if big and would and (tot > 4096 or A + sim.top + tot + 8 > BASE + REGION):
                ops.append("M%d" % tot)          # no real memset over unmapped memory, no long unary loops in the model
                sim.malloc(tot, i)
            else:
                if tot < W:
                    sim.malloc(tot, i)
                ops.append("C%d,%d" % (nm, sz))
            allocs.append(i)
        elif k == "A":
            x = r.random()
            if x < 0.8:
                al = r.choice([8, 8, 16, 16, 32, 64, 128, 256, 4096])
            elif x < 0.9:
                al = 1 << r.randrange(3, 24)
            else:
                al = 1 << r.randrange(24, 64)
            pad = (-(A + sim.top)) % al
            kmax = max(0, (rem - pad)) // al
            cnt = r.choice([0, 1, 1, 2, kmax, kmax, kmax + 1, max(0, kmax - 1), (W // al) - 1])
            n = min(cnt, (W - 1) // al) * al
            sim.aligned(al, n, i)
            allocs.append(i)
            ops.append("A%d,%d" % (al, n))
        elif k == "R":
            t = target()
            remr = sim.C - sim.last
            n = pick_size(r, remr)
            if t != "N":
                sim.realloc(int(t), n)
            ops.append("R%s,%d" % (t, n))
        else:
            t = target()
            if t != "N":
                sim.free(int(t))
            ops.append("%s%s" % (k, t))
    # rarely: end with a request outside aligned_alloc's preconditions (both sides must abort)
    if r.random() < 0.02:
        ops.append(r.choice(["A0,0", "A4,8", "A24,48", "A16,8", "A12,24", "A8,12", "A1,5"]))
        ops.append("M8")
    return "%d %d %d %s" % (A, C, 0 if big else 1, " ".join(ops))


def gen(ctx, seed, tier):
    r = ctx.rng("gen", seed)
    n_small, n_big = (12000, 3000) if tier == "quick" else (200000, 50000)
    cases = []
    for i in range(n_small):
        cases.append(gen_case(r, False, maxops=25 if i % 7 else 40, residue=i % 8))
    for i in range(n_big):
        cases.append(gen_case(r, True, maxops=16, residue=i % 8))
    cases += sweep(8 if tier == "quick" else 3)
    cases += exhaustive(3, [16, 24, 40]) if tier == "quick" else exhaustive(4, [16, 24, 40])
    return cases


SCRIPTS = [
    "M8 M8", "M0 M0 F0 M1", "M1 R0,9 M1", "M8 R0,13 M8", "M8 R0,0 M8 F0 C1,8", "M0 M8 F0 M8", "C1,8 C2,4 F1 C1,8",
    "A16,16 M8 A16,16", "A32,32 F0 A16,16 M1", "M8 M8 F0 F1 M8", "M8 M8 F1 F0 M8", "M16 R0,8 R0,24 F0", "A64,64 R0,8 E0 M8",
    "M8 A64,0 A8,8 E1 F2", "C3,3 R0,100 RN,8 FN M7",
]


def sweep(step):
    """every residue x capacities 0..48 x the scripted histories (the boundary of every capacity test)"""
    out = []
    for res in range(8):
        for C in range(0, 49, 1):
            for j, s in enumerate(SCRIPTS):
                if (C + j + res) % step == 0:
                    out.append("%d %d 1 %s" % (BASE + (1 << 20) + 64 + res, C, s))
    return out


def exhaustive(depth, caps):
    """ALL histories of the given depth over a small request alphabet (sizes around the unit, zero sizes, an
    aligned request, realloc and free of every earlier request) x all 8 address residues x the given capacities"""
    base = ["M0", "M8", "M9", "C1,9", "A16,16"]
    hist = [[]]
    for i in range(depth):
        alpha = base + [x for j in range(i) for x in ("R%d,1" % j, "R%d,17" % j, "F%d" % j)]
        hist = [h + [a] for h in hist for a in alpha]
    out = []
    for res in range(8):
        for C in caps:
            hdr = "%d %d 1 " % (BASE + (1 << 20) + 128 + res, C)
            out += [hdr + " ".join(h) for h in hist]
    return out


def targeted(ctx):
    return corpus(ctx) + sweep(1)


def corpus(ctx):
    p = os.path.join(vlib.VERIF, "corpus", "C09.txt")
    if not os.path.exists(p):
        return []
    return [l.strip() for l in open(p) if l.strip() and not l.startswith("#")]


def build(ctx):
    ctx.build_driver("drv_c09", ["bump_allocator.c", "allocator.c"])
    ctx.c09_impl = {}
    ctx.c09_theorem_runtime_rejects = 0


def run_impl(ctx, cases):
    """the driver survives asserts; a sanitizer stop or crash is attributed to the case being run"""
    out = []
    rest = list(cases)
    guard = 0
    while rest:
        rc, lines, err = ctx.run_lines([ctx.path("drv_c09")], rest)
        lines = lines[:len(rest)]
        out += lines
        if rc == 0 and len(lines) == len(rest):
            break
        k = len(lines)
        if k < len(rest):
            first = [l for l in err.strip().split("\n") if l.strip()]
            out.append("CRASH rc=%d %s" % (rc, (first[0] if first else "")[:160].replace(" || ", " ")))
            rest = rest[k + 1:]
        else:
            break
        guard += 1
        if guard > 200:
            out += ["CRASH too-many-crashes"] * len(rest)
            break
    for c, l in zip(cases, out):
        ctx.c09_impl[c] = vlib.obs(l)
    return out


def run_model(ctx, cases):
    exe = os.path.join(vlib.OCAML_BUILD, "drv_c09")
    if not os.path.exists(exe):
        raise vlib.BuildError("model driver %s missing: run `make -C /verif setup`" % exe)
    missing = [c for c in cases if c not in ctx.c09_impl]
    if missing:
        run_impl(ctx, missing)
    lines = ["%s ## %s" % (c, ctx.c09_impl[c]) for c in cases]
    # shard over a few processes (the extracted model runs on unary/binary Coq numbers)
    nsh = 8 if len(lines) > 400 else 1
    shards = [lines[i::nsh] for i in range(nsh)]
    import concurrent.futures as cf
    with cf.ThreadPoolExecutor(nsh) as ex:
        results = list(ex.map(lambda sh: ctx.run_lines([exe], sh) if sh else (0, [], ""), shards))
    ms, ss = [None] * len(lines), [None] * len(lines)
    for si, (rc, out, err) in enumerate(results):
        if rc != 0:
            raise vlib.BuildError("model driver failed rc=%d: %s" % (rc, err[-1000:]))
        m = [l[2:] for l in out if l.startswith("M ")]
        s = [l[2:] for l in out if l.startswith("S ")]
        t = [l[2:] for l in out if l.startswith("T ")]
        if not (len(m) == len(s) == len(t) == len(shards[si])):
            raise vlib.BuildError("model driver: %d cases, %d/%d/%d lines" % (len(shards[si]), len(m), len(s), len(t)))
        for j in range(len(m)):
            ms[si + j * nsh], ss[si + j * nsh] = m[j], s[j]
            if t[j] != "ok":
                # the spec rejects the MODEL's own trace: theorem bump_safe is contradicted at run time
                ctx.c09_theorem_runtime_rejects += 1
                tag = "theorem-runtime:bump_safe spec rejects the model's trace (%s) on: %s" % (t[j], shards[si][j][:200])
                if not any(b.startswith("theorem-runtime") for b in ctx.broken):
                    ctx.broken.append(tag)
    return ms, ss


def nontrivial(c):
    ops = c.split()[3:]
    return sum(o[0] in "MCA" for o in ops) >= 2 and any(o[0] in "RFEA" for o in ops)


# ---- shrinking: tokens are "origindex:op"; pointer arguments are renumbered, references to removed ops become stale
_hdr = [""]


def tokens(case):
    t = case.split()
    _hdr[0] = " ".join(t[:3])
    return ["%d:%s" % (i, o) for i, o in enumerate(t[3:])]


def untokens(toks):
    idx = {}
    for newi, t in enumerate(toks):
        idx[int(t.split(":", 1)[0])] = newi
    ops = []
    for newi, t in enumerate(toks):
        o = t.split(":", 1)[1]
        if o[0] in "RFE":
            body = o[1:].split(",")
            if body[0] != "N":
                body[0] = str(idx.get(int(body[0]), newi))     # own index = never live = stale
            o = o[0] + ",".join(body)
        ops.append(o)
    return _hdr[0] + " " + " ".join(ops)


def stats(cases, impl):
    kinds = {k: 0 for k in "MCRFAE"}
    outcomes = {"ptr": 0, "NULL": 0, "void": 0, "skip": 0, "ABORT": 0, "other": 0}
    residues = [0] * 8
    caps = {"0-16": 0, "17-200": 0, "201-4096": 0, "nominal-huge": 0}
    calloc_zero_checked = 0
    memset_seen = 0
    for c, l in zip(cases, impl):
        t = c.split()
        residues[int(t[0]) % 8] += 1
        C = int(t[1])
        caps["0-16" if C <= 16 else "17-200" if C <= 200 else "201-4096" if C <= 4096 else "nominal-huge"] += 1
        for o in t[3:]:
            kinds[o[0]] = kinds.get(o[0], 0) + 1
        parts = l.split(" || ")
        for tok in parts[0].split():
            if tok.startswith("p"):
                outcomes["ptr"] += 1
                calloc_zero_checked += "z" in tok
            elif tok in outcomes:
                outcomes[tok] += 1
            else:
                outcomes["other"] += 1
        if len(parts) > 1:
            memset_seen += sum(1 for s in parts[1].split()[1:] if not s.endswith(",-"))
    return {"ops_by_kind": kinds, "responses": outcomes, "buffer_address_mod_8": residues, "capacity_classes": caps,
            "calloc_blocks_checked_zero": calloc_zero_checked, "calls_that_wrote_memory": memset_seen,
            "histories": len(cases)}
