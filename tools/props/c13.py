"""C13 — digests: pure, alignment-independent, sensitive to seed / block / length.

Case line:  <fn> <seed> <hex|-> <off> <kind> <arg>      (see ocaml/drv_c13.ml)
"""
import os

import vlib

PROPS = "Properties_C13"
NDEBUG_TOO = True     # the library's normal build compiles assertions out: the same cases run against that build too

# leaf functions / constants of digest.c are re-translated from the C source on every run (tools/translate_leaf.py ->
# coq/gen/Leaf.v, Constants.v) and re-proved equal to the model's (coq/Properties_leaf_digest.v)
EXTRA_PROPS = ["Properties_leaf_digest"]


def REGEN(ctx):
    vlib.regen_leaf(ctx, ["Digest"])


RULE = ("seeds {0,1,max,random} x every length 0..40 (quick) / 0..72 (thorough) plus long buffers x random and "
        "patterned contents (zeros, 0xFF, high-bit bytes) x all 8 alignment offsets for zix_digest32/64/zix_digest; "
        "aligned variants on every word-multiple length at every admissible offset; relational cases: same bytes at "
        "two offsets (A), two seeds (S), one block or the tail replaced (B), zero-extension by 1..9 bytes (Z); block "
        "replacements repeated in place through a caller built at -O2 (O); one buffer of 2^32+24 bytes, zero and with "
        "one byte set, general and aligned variant (G; all three functions in thorough); "
        "distinct case strings counted, non-trivial = non-empty buffer")
ASSUMPTIONS = [
    "little-endian byte order and 64-bit size_t/uintptr_t (harness/drv_c13.c: _Static_assert and a start-up probe); "
    "on such a platform zix_digest is the 64-bit function (theorem native_is_64 is about that configuration)",
    "memory is a function from addresses to bytes; the uint32_t/uint64_t objects read by the *_aligned variants are "
    "the little-endian values of their bytes",
    "reads outside the buffer: after the end detected by ASan (exact-size heap block), before the start detected "
    "only as a dependence of the result on the preceding bytes (three fills), not as an access",
]

FNS_GENERAL = ["d32", "d64", "dn"]
FNS_ALIGNED = ["a32", "a64", "an"]
MAX32 = 2**32 - 1
MAX64 = 2**64 - 1


def word(fn):
    return 4 if fn in ("d32", "a32") else 8


def hexs(b):
    return bytes(b).hex() or "-"


def rand_bytes(r, n):
    style = r.randrange(8)
    if style == 0:
        return [0] * n
    if style == 1:
        return [0xFF] * n
    if style == 2:
        return [r.choice((0, 0x80, 0xFF, 1)) for _ in range(n)]
    if style == 3:
        return [r.randrange(0x80, 0x100) for _ in range(n)]
    return [r.randrange(256) for _ in range(n)]


def rand_seed(r, fn):
    mx = MAX32 if word(fn) == 4 else MAX64
    c = r.randrange(6)
    if c == 0:
        return 0
    if c == 1:
        return mx
    if c == 2:
        return r.choice((1, 2, 0x80000000, MAX32, min(mx, 1 << 32), min(mx, 1 << 63)))
    return r.randrange(mx + 1)


def other_block(r, old):
    """a replacement of the same length that differs from `old`"""
    c = r.randrange(4)
    new = list(old)
    if c == 0:           # one bit in one byte
        i = r.randrange(len(new))
        new[i] ^= 1 << r.randrange(8)
    elif c == 1:         # one byte
        i = r.randrange(len(new))
        new[i] = (new[i] + r.randrange(1, 256)) % 256
    elif c == 2:         # top bit of the last byte
        new[-1] ^= 0x80
    else:
        new = [r.randrange(256) for _ in new]
        if new == list(old):
            new[0] ^= 1
    return new


def rel_cases(r, fn, seed, b, off, full):
    """relational companions of one plain case"""
    out = []
    w = word(fn)
    n = len(b)
    h = hexs(b)
    al = fn in FNS_ALIGNED
    offs = [o for o in range(8) if (o % w == 0 if al else True) and o != off]
    if offs:
        for o2 in (offs if full else [r.choice(offs)]):
            out.append("%s %d %s %d A %d" % (fn, seed, h, off, o2))
    mx = MAX32 if w == 4 else MAX64
    s2 = r.choice([seed ^ (1 << r.randrange(32 if w == 4 else 64)), (seed + 1) % (mx + 1), r.randrange(mx + 1)])
    if s2 != seed:
        out.append("%s %d %s %d S %d" % (fn, seed, h, off, s2))
    if n:
        nblk = (n + w - 1) // w
        idxs = range(nblk) if full else sorted(set([r.randrange(nblk), nblk - 1]))
        for i in idxs:
            old = b[i * w:(i + 1) * w]
            out.append("%s %d %s %d B %d:%s" % (fn, seed, h, off, i, hexs(other_block(r, old))))
    if not al:
        js = range(1, 10) if full else sorted(set([r.randrange(1, 10), max(1, w - n % w - 1), 4]))
        for j in js:
            out.append("%s %d %s %d Z %d" % (fn, seed, h, off, j))
    return out


def gen(ctx, seed, tier):
    r = ctx.rng("gen", seed)
    thorough = tier == "thorough"
    cases = []
    maxlen = 72 if thorough else 40
    longs = [63, 64, 65, 100, 255, 256, 257, 1000] + ([4093, 4096, 4099] if thorough else [])
    reps = 4 if thorough else 1
    for n in list(range(maxlen + 1)) + longs:
        for fn in FNS_GENERAL:
            for off in range(8):
                for _ in range(reps if n <= maxlen else 1):
                    b = rand_bytes(r, n)
                    s = rand_seed(r, fn)
                    cases.append("%s %d %s %d - 0" % (fn, s, hexs(b), off))
                    if n <= maxlen and (thorough or off == (n % 8)):
                        cases += rel_cases(r, fn, s, b, off, full=False)
        for fn in FNS_ALIGNED:
            w = word(fn)
            if n % w:
                continue
            for off in range(0, 8, w):
                for _ in range(reps + 1):
                    b = rand_bytes(r, n)
                    s = rand_seed(r, fn)
                    cases.append("%s %d %s %d - 0" % (fn, s, hexs(b), off))
                    if n <= maxlen:
                        cases += rel_cases(r, fn, s, b, off, full=False)
    # every (length, j) zero-extension and every block of every length once, all relations
    for n in range(0, (41 if thorough else 25)):
        for fn in FNS_GENERAL + ([f for f in FNS_ALIGNED if n % word(f) == 0]):
            b = rand_bytes(r, n)
            cases += rel_cases(r, fn, rand_seed(r, fn), b, 0 if fn in FNS_ALIGNED else r.randrange(8), full=True)
    # block replacements again through the optimised caller (in place, same call repeated), and 4 GiB buffers
    bs = [c for c in cases if c.split()[4] == "B"]
    r.shuffle(bs)
    cases += ["O " + c for c in bs[:(3000 if thorough else 400)]]
    if seed == ctx.seed:
        cases += ["G d64"] + (["G d32", "G dn"] if thorough else [])
    return cases


def targeted(ctx):
    """inputs aimed at one tail byte / one length residue / the length mix"""
    r = ctx.rng("targeted")
    cases = []
    for n in range(0, 34):
        for fn in FNS_GENERAL:
            for off in (0, 1, 7):
                b = [r.randrange(1, 256) for _ in range(n)]
                s = rand_seed(r, fn)
                cases.append("%s %d %s %d - 0" % (fn, s, hexs(b), off))
                cases += rel_cases(r, fn, s, b, off, full=True)
    return cases


def corpus(ctx):
    p = os.path.join(vlib.VERIF, "corpus", "C13.txt")
    if not os.path.exists(p):
        return []
    return [l.rstrip("\n") for l in open(p) if l.strip() and not l.startswith("#")]


def build(ctx):
    ctx.build_driver("drv_c13", ["digest.c"])
    # second driver: -O2, no sanitizers (what the declarations in digest.h let an optimising caller assume; 4 GiB buffers)
    ctx.cc([os.path.join(vlib.HARNESS, "drv_c13_o2.c")] + ctx.repo_src("digest.c"), ctx.path("drv_c13_o2"),
           flags=["-O2"], sanitize=False)


def plain(case):
    """O <case>: the same relational case through the -O2 driver (in-place replacement, same call repeated)"""
    return case[2:] if case.startswith("O ") else case


def run_impl(ctx, cases):
    special = [i for i, c in enumerate(cases) if c.startswith(("O ", "G "))]
    if not special:
        return _run_impl_plain(ctx, cases)
    ss = set(special)
    from concurrent.futures import ThreadPoolExecutor
    with ThreadPoolExecutor(2) as ex:
        fa = ex.submit(_run_impl_plain, ctx, [c for i, c in enumerate(cases) if i not in ss])
        fb = ex.submit(ctx.run_lines, [ctx.path("drv_c13_o2")], [cases[i] for i in special], 900)
        a = iter(fa.result())
        rc, o, err = fb.result()
    o = o + ["CRASH rc=%d" % rc] * (len(special) - len(o))
    if any(l == "huge unavailable" for l in o):
        ctx.c13_huge_unavailable = True
        ctx.notes.append("the 4 GiB buffer of the G cases could not be mapped here: those cases were not evaluated")
    b = iter(o)
    return [next(b) if i in ss else next(a) for i in range(len(cases))]


def _run_impl_plain(ctx, cases):
    """run the C driver; after a sanitizer abort, mark that case and continue with the rest"""
    out = []
    pos = 0
    crashes = 0
    while pos < len(cases):
        rc, o, err = ctx.run_lines([ctx.path("drv_c13")], cases[pos:])
        o = [l for l in o if l != ""] if rc != 0 else o
        if rc == 0 and len(o) == len(cases) - pos:
            out += o
            break
        o = o[:len(cases) - pos - 1] if len(o) >= len(cases) - pos else o
        out += o
        pos += len(o)
        why = "?"
        for l in err.split("\n"):
            if "ERROR: AddressSanitizer" in l or "runtime error" in l or "Assertion" in l:
                why = l.strip()
                why = why[why.find("AddressSanitizer"):] if "AddressSanitizer" in why else why[-120:]
                why = " ".join(why.split()[:2]) if why.startswith("AddressSanitizer") else why
                break
        out.append("CRASH rc=%d %s" % (rc, why.replace(" ", "_")[:80]))
        pos += 1
        crashes += 1
        if crashes >= 40:
            out += ["CRASH not-run-after-40-crashes"] * (len(cases) - pos)
            break
    return out


def run_model(ctx, cases):
    g = [i for i, c in enumerate(cases) if c.startswith("G ")]
    ms, ss = ctx.run_model("drv_c13", [plain(c) for i, c in enumerate(cases) if not c.startswith("G ")])
    ms, ss = iter(ms), iter(ss)
    # G cases: no model evaluation on a 4 GiB list; the line is what the theorems of Properties_C13 say for EVERY
    # length (a changed block changes the digest; the aligned variant equals the general one on the same bytes)
    gl = "huge unavailable" if getattr(ctx, "c13_huge_unavailable", False) else "huge diff=1 eq=1"
    M, S = [], []
    for i, c in enumerate(cases):
        if c.startswith("G "):
            M.append(gl)
            S.append(gl)
        else:
            M.append(next(ms))
            S.append(next(ss))
    return M, S


def classify(case, impl, model, spec):
    """known finding C13-J4: 64-bit general function, zero-extension by exactly 4 bytes from a length that
    is a multiple of 8 (fasthash64 itself can collide there: length_sensitive64_boundary_refuted)"""
    t = plain(case).split()
    if len(t) != 6 or t[4] != "Z" or t[5] != "4" or t[0] not in ("d64", "dn"):
        return None
    n = 0 if t[2] == "-" else len(t[2]) // 2
    return "C13-J4" if n % 8 == 0 else None


def nontrivial(c):
    t = plain(c).split()
    return (len(t) == 6 and t[2] != "-") or c.startswith("G ")


def tokens(c):
    if c.startswith("G "):
        return [("G", c)]
    pre = "O " if c.startswith("O ") else ""
    t = plain(c).split()
    b = [] if t[2] == "-" else [t[2][i:i + 2] for i in range(0, len(t[2]), 2)]
    return [("H", pre + t[0], t[1], t[3], t[4], t[5])] + b


def untokens(toks):
    head = [x for x in toks if isinstance(x, tuple)]
    b = [x for x in toks if not isinstance(x, tuple)]
    if not head:
        return "bad"
    if head[0][0] == "G":
        return head[0][1]
    _, fn, seed, off, kind, arg = head[0]
    return "%s %s %s %s %s %s" % (fn, seed, "".join(b) or "-", off, kind, arg)


def stats(cases, impl):
    d = {"by_fn": {}, "by_kind": {}, "by_len_mod8": {}, "by_offset": {}, "max_len": 0,
         "rel_same": 0, "rel_diff": 0}
    d["optimised_caller_cases"] = sum(1 for c in cases if c.startswith("O "))
    d["huge_buffer_cases"] = sum(1 for c in cases if c.startswith("G "))
    for c, o in zip(cases, impl):
        t = plain(c).split()
        if len(t) != 6:
            continue
        n = 0 if t[2] == "-" else len(t[2]) // 2
        d["by_fn"][t[0]] = d["by_fn"].get(t[0], 0) + 1
        d["by_kind"][t[4]] = d["by_kind"].get(t[4], 0) + 1
        d["by_len_mod8"][str(n % 8)] = d["by_len_mod8"].get(str(n % 8), 0) + 1
        d["by_offset"][t[3]] = d["by_offset"].get(t[3], 0) + 1
        d["max_len"] = max(d["max_len"], n)
        if o.endswith("rel same"):
            d["rel_same"] += 1
        elif o.endswith("rel diff"):
            d["rel_diff"] += 1
    return d
