"""C15 — create_directories / file_equals / file type and size queries, see DESIGN.md section 5 C15."""
import itertools
import os

import vlib

PROPS = "Properties_C15"
PROPS_LINKS = "Properties_C15_links"
RULE = ("D: path shapes built from components {a,b,c,.,..,''} (relative and absolute, repeated/trailing separators), "
        "each against pre-existing trees (empty, partly existing, a file in the way), allocation ok/failing, and against "
        "trees with symbolic links (to a directory, to a file, dangling, loops, absolute and '..' targets, chains of 40 "
        "and 41 links) and fifos; Q: file/symlink type and size of any path over such trees; "
        "E: file pairs with sizes around multiples of the page size (and of the 512-byte fall-back buffer) +-1, one "
        "differing byte at first/last/page-boundary positions, missing files, same path/hard link/symlink, allocator "
        "answers, scripted short reads and errors; T: all file kinds; R/RL: real directory listings (names with dots, "
        "spaces), V: scripted readdir orders with '.' and '..' anywhere.  non-trivial = D with a non-empty path, E with "
        "two existing files, every Q/T/R/V")
ASSUMPTIONS = [
    "abstract file system coq/FsLinkSpec.v (directories, regular files, symbolic links, fifos, sockets, devices; path "
    "resolution with '.', '..', link targets, trailing separators, at most 40 links per resolution as in Linux; mkdir: "
    "EEXIST when the name exists even as a dangling link): no permissions (no EACCES), no concurrent modification; the "
    "real kernel's stat/lstat answers (mode or errno) and the resulting trees are compared with it on every D/Q/T case",
    "abstract file system coq/FsSpec.v (directories and regular files only) for the theorems of Properties_C15.v; on "
    "every D case without links the two models are run side by side and must print the same line",
    "file_equals: theorem file_equals_iff_bytes assumes an environment without short reads or I/O errors on the two "
    "regular files (explicit hypothesis `script = []`); short reads are modelled and tied (a short read is taken as a mismatch by the code)",
    "zix_dir_for_each: the callback is modelled as being called (its arguments are logged), not as code that may itself "
    "open or close descriptors; the entry list is what readdir returns (any names, any order)",
    "zix_canonical_path and permissions are NOT in the proved part: canonical_path is compared with realpath by the driver only",
    "page size 4096 (sysconf) in the model driver; permission bits 0755 in the model driver (the theorems are for any)",
]

WRAPS = ["open", "open64", "fstat", "fstat64", "stat", "stat64", "copy_file_range", "read", "write",
         "fdatasync", "close", "posix_fadvise", "posix_fadvise64", "mkdir",
         "lstat", "lstat64", "opendir", "readdir", "readdir64", "closedir"]
REPO_FILES = ["posix/filesystem_posix.c", "posix/system_posix.c", "system.c", "errno_status.c", "allocator.c",
              "filesystem.c", "path.c", "string_view.c"]


def check(ctx):
    """standard flow; the proof step compiles both property files (Properties_C15, Properties_C15_links)"""
    import sys
    orig = ctx.proof_step

    def both(props_module=None, regen=None, timeout=900):
        pr = orig(PROPS, regen=regen, timeout=timeout)
        extra = orig(PROPS_LINKS, timeout=timeout)
        merged = {"file": pr["file"] + " + " + extra["file"], "theorems": pr["theorems"] + extra["theorems"],
                  "obligations": pr["obligations"] + extra["obligations"],
                  "discharged": pr["discharged"] + extra["discharged"], "ok": pr["ok"] and extra["ok"],
                  "axioms": sorted(set(pr["axioms"] + extra["axioms"])), "log": pr["log"] + extra["log"]}
        ctx.proof = merged
        return merged

    ctx.proof_step = both
    return vlib.standard_check(ctx, sys.modules[__name__])


def build(ctx):
    ctx.build_driver("drv_c15", REPO_FILES, flags=["-Wl,--wrap=" + w for w in WRAPS],
                     extra=[os.path.join(vlib.HARNESS, "wrap_io_c14.c")])
    rc, out, err = vlib.sh([os.path.join(vlib.VERIF, "tools", "build_models.sh"), "C15"], timeout=600)
    if rc != 0:
        raise vlib.BuildError("model build failed: " + (out + err)[-500:])


def corpus(ctx):
    p = os.path.join(vlib.VERIF, "corpus", "C15.txt")
    return [l.strip() for l in open(p) if l.strip() and not l.startswith("#")] if os.path.exists(p) else []


SETUPS = ["-", "d:a", "d:a,d:a/b", "f:a", "d:a,f:a/b", "d:a,d:a/b,d:a/b/c", "f:b", "d:a,f:a/c", "d:b,d:c", "f:c,d:a"]


def escapes(path):
    """does the path climb above <base> (= the parent of the case directory)?  '@' is <base>/w."""
    depth = 1
    comps = path.lstrip("@").split("/") if path.startswith("@") else path.split("/")
    if path.startswith("/"):
        return True
    for c in comps:
        if c in ("", "."):
            continue
        if c == "..":
            depth -= 1
            if depth < 0:
                return True
        else:
            depth += 1
    return False


def gen_paths(r, thorough):
    comps = ["a", "b", "c", ".", "..", ""]
    out = set(["~", ".", "..", "@", "@/", "a", "a/", "a//", "./a", "a/./b", "a/../b", "a/b/../c", "a/b/c", "a//b", "@/a/b",
               "@//a", "@/a/../b/", "../w/a", "a/..", "a/../..", "ab/cd.e/f", "a/b/c/a/b/c", "./", ".//", "a/.", "a/b/.",
               "..a", "a../b", "...", "a/.../b", ".a/.b"])
    maxn = 5 if thorough else 4
    for n in range(1, maxn + 1):
        for t in itertools.product(comps, repeat=n):
            if n >= 4 and r.random() > (0.35 if thorough else 0.08):
                continue
            s = "/".join(t)
            if not s or s.startswith("/"):
                continue
            out.add(s)
            if r.random() < 0.25:
                out.add("@/" + s)
    return sorted(p for p in out if not escapes(p))


def gen(ctx, seed, tier):
    r = ctx.rng("gen", seed)
    thorough = tier == "thorough"
    cases = []
    paths = gen_paths(r, thorough)
    for p in paths:
        setups = SETUPS if (thorough or len(p) <= 5) else r.sample(SETUPS, 3)
        for s in setups:
            cases.append("D 1 %s %s" % (s, p))
        if r.random() < 0.1:
            cases.append("D 0 %s %s" % (r.choice(SETUPS), p))
    # pre-existing symbolic links and fifos: model = coq/FsLinkModel.v over coq/FsLinkSpec.v
    link_setups = ["d:a,l:s=a", "d:a,d:a/b,l:s=a", "f:a,l:s=a", "l:s=nowhere", "d:a,d:a/b,l:a/s=b", "d:a,l:s=a,l:t=s",
                   "d:a,f:a/f,l:a/s=f", "d:a,l:s=@/a", "d:a,d:a/b,l:s=../w/a/b", "d:a,l:s=a/", "f:a,l:s=a/", "l:s=s",
                   "l:s=t,l:t=s", "d:a,p:a/s", "p:s", "p:a,l:s=a", "l:s=.", "d:a,d:a/b,l:a/b/s=..", "d:a,l:s=a,l:a/t=../s",
                   "d:a,l:s=nowhere/a", "d:a,d:a/b,l:s=a/b,l:t=s/.."]
    link_paths = ["s", "s/", "s/x", "s/x/y", "s//x/", "./s/b", "s/./x", "a/s", "a/s/x", "a/s/x/y", "t/x", "x/s", "s/b/c",
                  "a/b/s", "s/../x", "s/..", "a/b/s/x", "t", "a/t/x", "s/s/x", "s/x/../y/"]
    for s in link_setups:
        for p in link_paths:
            cases.append("D 1 %s %s" % (s, p))
            if r.random() < 0.2:
                cases.append("D 1 %s @/%s" % (s, p))
            if r.random() < 0.05:
                cases.append("D 0 %s %s" % (s, p))
    comps_l = ["s", "t", "a", "b", "x", ".", "..", ""]
    for _ in range(400 if thorough else 60):
        p = "/".join(r.choice(comps_l) for _ in range(r.randint(1, 5)))
        # no name of these setups leads above the case directory, so at most one ".." keeps the walk inside <base>
        if p and not p.startswith("/") and p.split("/").count("..") <= 1:
            cases.append("D 1 %s %s" % (r.choice(link_setups), p))
    # the bound on the links followed in one resolution: chains c0 -> c1 -> ... -> a of 40 and 41 links, and the
    # same link 40 and 41 times in one path
    for n in (39, 40, 41, 42):
        chain = "d:a," + ",".join("l:c%d=%s" % (i, ("c%d" % (i + 1)) if i + 1 < n else "a") for i in range(n))
        cases += ["D 1 %s c0/x" % chain, "D 1 %s c0" % chain, "Q %s c0" % chain, "Q %s c1/." % chain]
        seq = "/".join(["s"] * n)
        cases += ["D 1 l:s=. %s/x" % seq, "Q l:s=. %s" % seq, "Q d:a,l:s=. %s/a/" % seq]
    # Q: zix_file_type / zix_symlink_type / zix_file_size on any path
    q_paths = ["s", "s/", "s/.", "s/..", "s/x", "s/f", "s/f/", "a/s", "a/s/", "a", "a/", "a/f", "a/f/", "a/f/.", "a/f/..",
               "missing", "missing/", "missing/x", "t", "t/", "t/b", ".", "..", "./s", "../w/s", "@/s", "@/s/", "a//s//", "s/s",
               "a/../s", "s/../s", "a/b/s", "a/b/s/x"]
    for s in link_setups:
        for p in (q_paths if thorough else r.sample(q_paths, 14)):
            cases.append("Q %s %s" % (s, p))
    # E: sizes around the page size and the fall-back buffer
    sizes = [0, 1, 2, 511, 512, 513, 1023, 1024, 1025, 4095, 4096, 4097, 8191, 8192, 8193]
    if thorough:
        sizes += [12287, 12288, 12289, 1536, 4608, 5000]
    allocs = [("A", "A"), ("N0", "A"), ("A", "N12"), ("N12", "N0")]
    for n in sizes:
        seed_a = r.randint(0, 99)
        a = "@%d:%d" % (n, seed_a) if n else "-"
        for (al1, al2) in (allocs if (thorough or n in (0, 513, 4097, 8192)) else [allocs[0], r.choice(allocs[1:])]):
            e0 = r.choice([0, 0, 5])
            cases.append("E %s %s D %s %s %d -" % (a, a, al1, al2, e0))                     # equal content
            poss = sorted(set(p for p in [0, n - 1, 511, 512, 513, 4095, 4096, 4097, 8191, 8192, n // 2] if 0 <= p < n))
            for pos in poss:
                b = "@%d:%d:%d" % (n, seed_a, pos)
                cases.append("E %s %s D %s %s %d -" % (a, b, al1, al2, e0))
                if r.random() < 0.3:
                    cases.append("E %s %s D %s %s %d -" % (b, a, al1, al2, e0))             # symmetric
            for m in [n - 4096, n - 512, n - 1, n + 1, n + 512, n + 4096]:
                if m >= 0 and (thorough or r.random() < 0.5):
                    cases.append("E %s %s D %s %s %d -" % (a, "@%d:%d" % (m, seed_a) if m else "-", al1, al2, e0))
        for rel in "PHL":
            cases.append("E %s - %s A A 0 -" % (a, rel))
        cases.append("E %s M D A A 0 -" % a)
        cases.append("E M %s D A A %d -" % (a, r.choice([0, 2])))
        # scripted short reads / errors (calls: open a, open b, fstat a, fstat b, reads..., close b, close a)
        for _ in range(12 if thorough else 3):
            ncalls = 6 + 2 * (n // 512 + 2)
            s = ["F"] * ncalls
            for _ in range(r.randint(1, 2)):
                s[r.randrange(ncalls)] = r.choice(["E5", "E4", "E13", "S1", "S100", "S511", "S4095", "S0"])
            al = r.choice(allocs)
            cases.append("E %s %s D %s %s 0 %s" % (a, a, al[0], al[1], ",".join(s)))
    # a read error (EIO/EINTR) at each read index, on pairs that are equal up to that block and differ afterwards
    # (both orders, error on either file): may answer false, never true - the bytes differ
    for n in ([1025, 4097, 8192, 8193, 12289] if thorough else [1025, 8193]):
        for (al1, al2, buf) in [("A", "A", 4096), ("N0", "A", 512)]:
            nb = (n + buf - 1) // buf
            seed_a = r.randint(0, 99)
            for j in range(nb + 1):
                poss = sorted(set(p for p in [j * buf, min(n - 1, j * buf + buf - 1), n - 1] if j * buf <= p < n))
                for pos in (poss if thorough else poss[:1] + poss[-1:]):
                    a, b = "@%d:%d" % (n, seed_a), "@%d:%d:%d" % (n, seed_a, pos)
                    for which in (0, 1):                       # the read of the first / of the second file
                        if which == 1 and not thorough and r.random() < 0.5:
                            continue
                        scr = ",".join(["F"] * (4 + 2 * j + which) + [r.choice(["E5", "E4"])])
                        cases.append("E %s %s D %s %s 0 %s" % (a, b, al1, al2, scr))
                        cases.append("E %s %s D %s %s 0 %s" % (b, a, al1, al2, scr))
    cases += ["E M M D A A 0 -", "E M M P A A 0 -"]
    # relation C: two different files whose inode numbers collide across devices (only (st_dev, st_ino) names a file)
    coll = [c.replace(" D ", " C ", 1) for c in cases if c.startswith("E ") and " D " in c and c.endswith(" -")]
    r.shuffle(coll)
    cases += coll[:(400 if thorough else 60)]
    # relation Z: two different files compared by a process whose descriptor 0 is closed (the first open returns 0)
    cases += [c.replace(" C ", " Z ", 1) for c in coll[:(200 if thorough else 40)]]
    # relation U: two different files that the caller may read but does not OWN (the call is made in a child that has
    # given up root for uid 65534; when the check does not run as root the relation is D)
    cases += [c.replace(" C ", " U ", 1) for c in coll[40:(240 if thorough else 70)]]
    # T: all kinds
    for k in ["R", "D", "LR", "LD", "LX", "F", "S", "C", "M"]:
        for size in ([0, 1, 4096, 4097, 100000] if k in ("R", "LR") else [0]):
            cases.append("T %s %d" % (k, size))
    if seed == ctx.seed:
        cases += ["N " + x for x in CANON_PATHS]
    # R/RL: real directory listings (the kernel's order; both sides sort)
    names = ["a", "b", "sub/", ".hidden", "..x", "...", "x.y", "UPPER", "z/", ".d/", "long-name-with-many-characters.txt",
             "..data", "a%20b", "%20lead", ".%20", "..%20", "..a/", "....", ".a.b"]
    cases += ["R -", "RL -"]
    for _ in range(60 if thorough else 15):
        k = r.randint(1, len(names))
        cases.append("%s %s" % (r.choice(["R", "R", "RL"]), ",".join(r.sample(names, k))))
    cases.append("R " + ",".join("f%03d" % i for i in range(300)))
    # names at the limit (NAME_MAX = 255 bytes): 254, 255, and two 255-byte names that differ in the last byte only
    n254, n255, n255a, n255b = "k" * 254, "m" * 255, "x" * 254 + "a", "x" * 254 + "b"
    cases += ["R " + n255, "R " + n254, "R %s,%s" % (n255a, n255b), "RL %s,%s,a,.h,%s/" % (n255a, n254, n255b),
              "R %s,%s,%s" % (".." + "d" * 253, "." * 255, "a%20" + "b" * 253)]
    cases += ["V ok " + n255, "V ok " + n254, "V ok .,%s,..,%s" % (n255a, n255b), "V ok %s,.,a,%s,..,%s" % (n254, n255, n255),
              "V ok %s,%s" % ("." * 255, ".." + "d" * 253)]
    # V: scripted opendir/readdir: any names in any order, "." and ".." anywhere (or absent, or repeated)
    pool = [".", "..", "a", "..data", "...", ".hidden", "a%20b", "..a", ".%20", "..%20", "x", "%2E", "b%2Cc", "d%3Ae"]
    cases += ["V ok -", "V fail -", "V fail a,b", "V ok .,..", "V ok ..,.", "V ok a,.,..", "V ok .,..,..data,...,.hidden",
              "V ok ..data", "V ok a,a,.,a"]
    for _ in range(120 if thorough else 40):
        k = r.randint(1, 9)
        cases.append("V ok " + ",".join(r.choice(pool) for _ in range(k)))
    seen, out = set(), []
    for c in cases:
        if c not in seen:
            seen.add(c)
            out.append(c)
    return out


def run_impl(ctx, cases):
    rc, out, err = ctx.run_lines([ctx.path("drv_c15")], cases, timeout=1500)
    if rc != 0:
        out = out + ["CRASH rc=%d %s" % (rc, err.strip().split("\n")[0][:200] if err.strip() else "")] * (len(cases) - len(out))
    return out


CANON_PATHS = ["/", "//", "///", "/.", "/..", "/../..", "/tmp/..", "/tmp/../", ".", "..", "./", "d", "d/", "d/.", "d/..", "d/../..",
               "d/sub/../..", "d/sub/../../..", "l", "l/", "l/sub", "l/sub/..", "l/..", "lroot", "lroot/", "lroot/tmp", "lroot/.",
               "lroot/..", "ldang", "ldang/", "f", "f/", "f/.", "lf", "lf/", "nope", "nope/..", "d//sub///", "-", "d/sub/.",
               "/tmp", "/tmp/", "/tmp/.", "/proc/self/cwd", "/proc/self/cwd/d"]


def run_model(ctx, cases):
    # N cases: zix_canonical_path is outside the Coq models; its oracle is realpath(3), evaluated by the C driver on the
    # same path, so the expected line is a constant
    # relation C is relation D for the model: the two are different files
    rest = [c.replace(" C ", " D ", 1).replace(" Z ", " D ", 1).replace(" U ", " D ", 1) if c.startswith("E ") else c for c in cases if not c.startswith("N ")]
    ms, ss = ctx.run_model("drv_c15", rest, timeout=1500) if rest else ([], [])
    ms, ss = iter(ms), iter(ss)
    M, S = [], []
    for c in cases:
        if c.startswith("N "):
            M.append("canon= agrees fds= 0 leak= 0")
            S.append("canon= agrees fds= 0 leak= 0")
        else:
            M.append(next(ms))
            S.append(next(ss))
    return M, S


def l1_extra(case, impl_obs):
    w = impl_obs.split()
    if w == ["?"]:
        return True       # not a case (only met while shrinking)
    t = {w[i].rstrip("="): w[i + 1] for i in range(0, len(w) - 1, 2)}
    if t.get("fds") != "0":
        return False
    if case.startswith("D "):
        alloc_ok = case.split()[1] == "1"
        if alloc_ok and (t["st"] == "SUCCESS") != (t["isdir"] == "1"):
            return False      # SUCCESS exactly when the path then names a directory
        if not alloc_ok and t["st"] == "SUCCESS" and t["isdir"] != "1":
            return False
        if t["st"] == "SUCCESS" and (t["again"] != "SUCCESS" or t["same"] != "1"):
            return False      # idempotent
        if t.get("leak") != "0":
            return False
    return True


def tokens(c):
    """shrinking: the names of a listing are dropped one by one"""
    t = c.split(" ")
    if t[0] in ("R", "RL") and len(t) == 2:
        return [t[0]] + ["," + x for x in t[1].split(",")]
    if t[0] == "V" and len(t) == 3:
        return t[:2] + ["," + x for x in t[2].split(",")]
    return [c]      # D/Q: the entries of a setup depend on each other (parents first), not shrunk


def untokens(toks):
    head = [x for x in toks if x[0] != ","]
    names = [x[1:] for x in toks if x[0] == ","]
    if head and head[0] in ("R", "RL", "V"):
        return " ".join(head + [",".join(names) or "-"])
    return " ".join(toks)


def nontrivial(c):
    t = c.split()
    if t[0] == "D":
        return t[3] != "~"
    if t[0] == "E":
        return t[1] != "M" and t[2] != "M"
    return True


def stats(cases, impl):
    kinds = {}
    for c in cases:
        kinds[c[0]] = kinds.get(c[0], 0) + 1
    d_status = {}
    for c, l in zip(cases, impl):
        if c.startswith("D "):
            k = l.split()[1] if len(l.split()) > 1 else "?"
            d_status[k] = d_status.get(k, 0) + 1
    eq = {"true": 0, "false": 0}
    for c, l in zip(cases, impl):
        if c.startswith("E ") and l.startswith("eq= "):
            eq[l.split()[1]] = eq.get(l.split()[1], 0) + 1
    import re
    max_name = 0
    for c in cases:
        t = c.split()
        if t[0] in ("R", "RL", "V") and t[-1] != "-":
            for nm in t[-1].split(","):
                max_name = max(max_name, len(re.sub(r"%[0-9A-Fa-f]{2}", "_", nm.rstrip("/"))))
    return {"case_kinds": kinds, "max_entry_name_length": max_name, "mkdirs_status_histogram": d_status, "equals_results": eq,
            "equals_with_script": sum(1 for c in cases if c.startswith("E ") and not c.endswith(" -")),
            "equals_read_error_on_differing_pair": sum(1 for c in cases if c.startswith("E ") and not c.endswith(" -")
                                                       and c.split()[1] != c.split()[2] and c.split()[3] == "D"
                                                       and "M" not in c.split()[1:3] and ",E" in c.split()[7]),
            "equals_alloc_failures": sum(1 for c in cases if c.startswith("E ") and " N" in c)}
