"""C15 — create_directories / file_equals / file type and size queries, see DESIGN.md section 5 C15."""
import itertools
import os

import vlib

PROPS = "Properties_C15"
RULE = ("D: path shapes built from components {a,b,c,.,..,''} (relative and absolute, repeated/trailing separators), "
        "each against pre-existing trees (empty, partly existing, a file in the way), allocation ok/failing; "
        "E: file pairs with sizes around multiples of the page size (and of the 512-byte fall-back buffer) +-1, one "
        "differing byte at first/last/page-boundary positions, missing files, same path/hard link/symlink, allocator "
        "answers, scripted short reads and errors; T: all file kinds; R: directory listings.  non-trivial = D with a "
        "non-empty path, E with two existing files")
ASSUMPTIONS = [
    "abstract file system coq/FsSpec.v: directories and regular files only, no symlinks, no permissions, no "
    "concurrent modification; mkdir/stat errors are ENOENT/EEXIST/ENOTDIR only",
    "file_equals: theorem file_equals_iff_bytes assumes an environment without short reads or I/O errors on the two "
    "regular files (explicit hypothesis `script = []`); short reads are modelled and tied (a short read is taken as a mismatch by the code)",
    "zix_symlink_type, zix_canonical_path, zix_dir_for_each, symlinks and permissions are NOT in the proved part: "
    "they are compared with direct lstat/realpath/readdir calls by the driver only",
    "create_directories with pre-existing symbolic links (to a directory, to a file, dangling; as intermediate or final "
    "component): real runs only, L1 = SUCCESS exactly when stat (following links) says the path names a directory; the "
    "model's answer for these cases is computed on the abstract file system with a link to a directory counted as a "
    "directory and any other link as a file, and only the observable part is compared",
    "page size 4096 (sysconf) in the model driver",
]

WRAPS = ["open", "open64", "fstat", "fstat64", "stat", "stat64", "copy_file_range", "read", "write",
         "fdatasync", "close", "posix_fadvise", "posix_fadvise64", "mkdir"]
REPO_FILES = ["posix/filesystem_posix.c", "posix/system_posix.c", "system.c", "errno_status.c", "allocator.c",
              "filesystem.c", "path.c", "string_view.c"]


def build(ctx):
    ctx.build_driver("drv_c15", REPO_FILES, flags=["-Wl,--wrap=" + w for w in WRAPS],
                     extra=[os.path.join(vlib.HARNESS, "wrap_io_c14.c")])
    rc, out, err = vlib.sh([os.path.join(vlib.VERIF, "tools", "build_models.sh"), "C15"], timeout=600)
    if rc != 0:
        raise vlib.BuildError("model build failed: " + (out + err)[-500:])


def corpus(ctx):
    p = os.path.join(vlib.VERIF, "corpus", "C15.txt")
    return [l.strip() for l in open(p) if l.strip() and not l.startswith("#")] if os.path.exists(p) else []


SETUPS = ["-", "d:a", "d:a,d:a/b", "f:a", "d:a,f:a/b", "d:a,d:a/b,d:a/b/c", "f:b", "d:a,f:a/c", "d:b,d:c", "f:c,d:a"]


def escapes(path):
    """does the path climb above <base> (= the parent of the case directory)?  '@' is <base>/w."""
    depth = 1
    comps = path.lstrip("@").split("/") if path.startswith("@") else path.split("/")
    if path.startswith("/"):
        return True
    for c in comps:
        if c in ("", "."):
            continue
        if c == "..":
            depth -= 1
            if depth < 0:
                return True
        else:
            depth += 1
    return False


def gen_paths(r, thorough):
    comps = ["a", "b", "c", ".", "..", ""]
    out = set(["~", ".", "..", "@", "@/", "a", "a/", "a//", "./a", "a/./b", "a/../b", "a/b/../c", "a/b/c", "a//b", "@/a/b",
               "@//a", "@/a/../b/", "../w/a", "a/..", "a/../..", "ab/cd.e/f", "a/b/c/a/b/c", "./", ".//", "a/.", "a/b/.",
               "..a", "a../b", "...", "a/.../b", ".a/.b"])
    maxn = 5 if thorough else 4
    for n in range(1, maxn + 1):
        for t in itertools.product(comps, repeat=n):
            if n >= 4 and r.random() > (0.35 if thorough else 0.08):
                continue
            s = "/".join(t)
            if not s or s.startswith("/"):
                continue
            out.add(s)
            if r.random() < 0.25:
                out.add("@/" + s)
    return sorted(p for p in out if not escapes(p))


def gen(ctx, seed, tier):
    r = ctx.rng("gen", seed)
    thorough = tier == "thorough"
    cases = []
    paths = gen_paths(r, thorough)
    for p in paths:
        setups = SETUPS if (thorough or len(p) <= 5) else r.sample(SETUPS, 3)
        for s in setups:
            cases.append("D 1 %s %s" % (s, p))
        if r.random() < 0.1:
            cases.append("D 0 %s %s" % (r.choice(SETUPS), p))
    # pre-existing symbolic links (real file system only; L1 = SUCCESS exactly when stat says the path is a directory)
    link_setups = ["d:a,l:s=a", "d:a,d:a/b,l:s=a", "f:a,l:s=a", "l:s=nowhere", "d:a,d:a/b,l:a/s=b", "d:a,l:s=a,l:t=s",
                   "d:a,f:a/f,l:a/s=f"]
    link_paths = ["s", "s/", "s/x", "s/x/y", "s//x/", "./s/b", "s/./x", "a/s", "a/s/x", "a/s/x/y", "t/x", "x/s", "s/b/c", "a/b/s"]
    for s in link_setups:
        for p in link_paths:
            cases.append("D 1 %s %s" % (s, p))
            if r.random() < 0.2:
                cases.append("D 1 %s @/%s" % (s, p))
    # E: sizes around the page size and the fall-back buffer
    sizes = [0, 1, 2, 511, 512, 513, 1023, 1024, 1025, 4095, 4096, 4097, 8191, 8192, 8193]
    if thorough:
        sizes += [12287, 12288, 12289, 1536, 4608, 5000]
    allocs = [("A", "A"), ("N0", "A"), ("A", "N12"), ("N12", "N0")]
    for n in sizes:
        seed_a = r.randint(0, 99)
        a = "@%d:%d" % (n, seed_a) if n else "-"
        for (al1, al2) in (allocs if (thorough or n in (0, 513, 4097, 8192)) else [allocs[0], r.choice(allocs[1:])]):
            e0 = r.choice([0, 0, 5])
            cases.append("E %s %s D %s %s %d -" % (a, a, al1, al2, e0))                     # equal content
            poss = sorted(set(p for p in [0, n - 1, 511, 512, 513, 4095, 4096, 4097, 8191, 8192, n // 2] if 0 <= p < n))
            for pos in poss:
                b = "@%d:%d:%d" % (n, seed_a, pos)
                cases.append("E %s %s D %s %s %d -" % (a, b, al1, al2, e0))
                if r.random() < 0.3:
                    cases.append("E %s %s D %s %s %d -" % (b, a, al1, al2, e0))             # symmetric
            for m in [n - 4096, n - 512, n - 1, n + 1, n + 512, n + 4096]:
                if m >= 0 and (thorough or r.random() < 0.5):
                    cases.append("E %s %s D %s %s %d -" % (a, "@%d:%d" % (m, seed_a) if m else "-", al1, al2, e0))
        for rel in "PHL":
            cases.append("E %s - %s A A 0 -" % (a, rel))
        cases.append("E %s M D A A 0 -" % a)
        cases.append("E M %s D A A %d -" % (a, r.choice([0, 2])))
        # scripted short reads / errors (calls: open a, open b, fstat a, fstat b, reads..., close b, close a)
        for _ in range(12 if thorough else 3):
            ncalls = 6 + 2 * (n // 512 + 2)
            s = ["F"] * ncalls
            for _ in range(r.randint(1, 2)):
                s[r.randrange(ncalls)] = r.choice(["E5", "E4", "E13", "S1", "S100", "S511", "S4095", "S0"])
            al = r.choice(allocs)
            cases.append("E %s %s D %s %s 0 %s" % (a, a, al[0], al[1], ",".join(s)))
    cases += ["E M M D A A 0 -", "E M M P A A 0 -"]
    # T: all kinds
    for k in ["R", "D", "LR", "LD", "LX", "F", "S", "C", "M"]:
        for size in ([0, 1, 4096, 4097, 100000] if k in ("R", "LR") else [0]):
            cases.append("T %s %d" % (k, size))
    # R: directory listings
    names = ["a", "b", "sub/", ".hidden", "..x", "...", "x.y", "UPPER", "z/", ".d/", "long-name-with-many-characters.txt"]
    cases.append("R -")
    for _ in range(60 if thorough else 15):
        k = r.randint(1, len(names))
        cases.append("R " + ",".join(r.sample(names, k)))
    cases.append("R " + ",".join("f%03d" % i for i in range(300)))
    seen, out = set(), []
    for c in cases:
        if c not in seen:
            seen.add(c)
            out.append(c)
    return out


def run_impl(ctx, cases):
    rc, out, err = ctx.run_lines([ctx.path("drv_c15")], cases, timeout=1500)
    if rc != 0:
        out = out + ["CRASH rc=%d %s" % (rc, err.strip().split("\n")[0][:200] if err.strip() else "")] * (len(cases) - len(out))
    return out


def run_model(ctx, cases):
    return ctx.run_model("drv_c15", cases, timeout=1500)


def l1_extra(case, impl_obs):
    w = impl_obs.split()
    t = {w[i].rstrip("="): w[i + 1] for i in range(0, len(w) - 1, 2)}
    if t.get("fds") != "0":
        return False
    if case.startswith("D "):
        alloc_ok = case.split()[1] == "1"
        if alloc_ok and (t["st"] == "SUCCESS") != (t["isdir"] == "1"):
            return False      # SUCCESS exactly when the path then names a directory
        if not alloc_ok and t["st"] == "SUCCESS" and t["isdir"] != "1":
            return False
        if t["st"] == "SUCCESS" and (t["again"] != "SUCCESS" or t["same"] != "1"):
            return False      # idempotent
        if t.get("leak") != "0":
            return False
    return True


def nontrivial(c):
    t = c.split()
    if t[0] == "D":
        return t[3] != "~"
    if t[0] == "E":
        return t[1] != "M" and t[2] != "M"
    return True


def stats(cases, impl):
    kinds = {}
    for c in cases:
        kinds[c[0]] = kinds.get(c[0], 0) + 1
    d_status = {}
    for c, l in zip(cases, impl):
        if c.startswith("D "):
            k = l.split()[1] if len(l.split()) > 1 else "?"
            d_status[k] = d_status.get(k, 0) + 1
    eq = {"true": 0, "false": 0}
    for c, l in zip(cases, impl):
        if c.startswith("E ") and l.startswith("eq= "):
            eq[l.split()[1]] = eq.get(l.split()[1], 0) + 1
    return {"case_kinds": kinds, "mkdirs_status_histogram": d_status, "equals_results": eq,
            "equals_with_script": sum(1 for c in cases if c.startswith("E ") and not c.endswith(" -")),
            "equals_alloc_failures": sum(1 for c in cases if c.startswith("E ") and " N" in c)}
