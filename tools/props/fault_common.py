"""Shared by C07 (allocation failure) and C08 (allocator discipline): case generation, the driver build
(two B-tree page sizes), running, and the judgement of one implementation line."""
import os
import re

import vlib

REPO_FILES = ["btree.c", "hash.c", "tree.c", "ring.c", "path.c", "string_view.c", "allocator.c", "filesystem.c",
              "status.c", "system.c", "errno_status.c", "posix/filesystem_posix.c", "posix/environment_posix.c",
              "posix/system_posix.c"]
LIBC_ALLOC = {"malloc", "calloc", "realloc", "free", "posix_memalign", "aligned_alloc", "memalign", "valloc",
              "strdup", "strndup", "reallocarray"}


def build(ctx):
    """objects per source file (so their undefined symbols can be inspected), two links (page 4096 / 64)"""
    objs = {}
    for variant, flags in (("", []), ("_p64", ["-DZIX_BTREE_PAGE_SIZE=64"])):
        os.makedirs(ctx.path("obj" + variant), exist_ok=True)
        olist = []
        for f in REPO_FILES:
            if variant and f != "btree.c":
                olist.append(objs[f])
                continue
            o = ctx.path("obj%s/%s.o" % (variant, f.replace("/", "_")))
            ctx.cc(ctx.repo_src(f), o, flags=flags, link=False)
            if not variant:
                objs[f] = o
            olist.append(o)
        ctx.cc([os.path.join(vlib.HARNESS, "drv_c07.c")] + olist, ctx.path("drv_c07" + variant),
               flags=["-Wl,--wrap=copy_file_range,--wrap=zix_default_allocator,--wrap=malloc,--wrap=calloc,--wrap=realloc,--wrap=free,--wrap=posix_memalign"])
    ctx.fault_objs = objs
    return objs


def libc_alloc_refs(ctx):
    """zix translation units (other than allocator.c, the default allocator) must not reference libc allocation
    functions at all: everything goes through the ZixAllocator interface.  Returns {file: [symbols]}."""
    bad = {}
    for f, o in ctx.fault_objs.items():
        if f == "allocator.c":
            continue
        rc, out, _ = vlib.sh(["nm", "-u", o])
        syms = {l.split()[-1] for l in out.split("\n") if l.strip()}
        hit = sorted(s for s in syms if s in LIBC_ALLOC)
        if hit:
            bad[f] = hit
    return bad


def hexs(s):
    return s.encode().hex() or "-"


def base_cases(ctx, seed, tier):
    """fault-free base cases: (component, args string)"""
    r = ctx.rng("base", seed)
    out = []
    big = tier == "thorough"

    def ops(n, keys, p_ins, recover=True, cont=6, clear=False):
        o = []
        for _ in range(n):
            x = r.random()
            k = r.randrange(keys)
            if x < p_ins:
                o.append("i%d" % k)
            elif x < p_ins + (1 - p_ins) * 0.6:
                o.append("r%d" % k)
            elif clear and x > 0.985:
                o.append("c")
            else:
                o.append("f%d" % k)
        if recover:
            o.append("!")
            for _ in range(cont):
                o.append(r.choice("irf") + str(r.randrange(keys)))
        return " ".join(o)

    # B-tree, page size 64 (L=6): a few dozen keys force splits, merges, root growth and collapse
    for _ in range(14 if not big else 60):
        keys = r.choice([12, 40, 90])
        drain = list(range(keys))
        if r.random() < 0.5:
            r.shuffle(drain)
        out.append(("btree64", ops(r.randrange(10, 70), keys, r.choice([0.55, 0.7, 0.9]), clear=True)
                    + " " + " ".join("r%d" % k for k in drain) + " i1 i2 f1"))
    asc = " ".join("i%d" % i for i in range(60)) + " ! " + " ".join("r%d" % i for i in range(60)) + " i5 f5"
    out.append(("btree64", asc))
    # the same operation failing part-way several times in a row (token *<n>: the n-th request from now is refused), then
    # memory is back: whatever the failed attempts left behind must not accumulate (root splits, leaf splits, hash grows)
    for fill, reps in ((6, 6), (6, 2), (30, 6), (45, 3)):
        for nth in (0, 1):
            pre = " ".join("i%d" % i for i in range(fill))
            again = " ".join("*%d i%d" % (nth, fill) for _ in range(reps))
            out.append(("btree64", "%s %s ! i%d %s f%d f0 r0 i0" % (pre, again, fill, " ".join("i%d" % i for i in range(fill + 1, fill + 40)), fill)))
    for fill, reps in ((1, 4), (4, 4), (9, 3)):
        pre = " ".join("i%d" % i for i in range(fill))
        again = " ".join("*0 i%d" % fill for _ in range(reps))
        out.append(("hash", "m %s %s ! i%d %s f%d f0" % (pre, again, fill, " ".join("i%d" % i for i in range(fill + 1, fill + 20)), fill)))
    # default page size: > 510 inserts to split the root leaf
    for n in ([600] if not big else [600, 1300]):
        seq = list(range(n))
        r.shuffle(seq)
        out.append(("btree", " ".join("i%d" % (k % 1024) for k in seq) + " ! " + " ".join("r%d" % k for k in seq[:40])))
    # hash: growth 4->8->..., shrink on removal, colliding hash functions
    for _ in range(14 if not big else 60):
        hf = r.choice("mcl")
        out.append(("hash", hf + " " + ops(r.randrange(8, 60), r.choice([10, 30, 80]), r.choice([0.5, 0.75, 0.9]))))
    up = " ".join("i%d" % i for i in range(40))
    down = " ".join("r%d" % i for i in range(40))
    out.append(("hash", "m " + up + " " + down + " ! i1 i2 f1"))
    # AVL tree
    for _ in range(10 if not big else 40):
        out.append(("tree", r.choice("dn") + " " + ops(r.randrange(4, 30), r.choice([6, 20]), r.choice([0.6, 0.85]))))
    # containers drained completely (every element removed, in some order) and only then freed; also drained, refilled
    for n in (1, 2, 3, 4, 6, 9):
        for _ in range(2 if n > 1 else 1):
            order = list(range(1, n + 1))
            r.shuffle(order)
            drain = " ".join("i%d" % k for k in range(1, n + 1)) + " " + " ".join("r%d" % k for k in order)
            out.append(("tree", r.choice("dn") + " " + drain))
            out.append(("hash", r.choice("mcl") + " " + drain))
            out.append(("btree64", drain))
            out.append(("tree", "n " + drain + " ! i1 i2 r1"))
    for size in (0, 1, 2, 100, 4096, 70000, 2**31, 2**31 + 1, 0xC0000000, 2**32 - 1):
        out.append(("ring", str(size)))
    strs = ["", "a", "/", "a/b", "/a/../b/./c//", "../x", "a.b/c.d", "//", "~/x$ZIXV/y", "$ZIXV$ZIXV:~", "no refs at all",
            "a" * 300, "$UNSET_VAR/x/$ZIXV/~"]
    for s in strs:
        for fn in ("sv", "pref", "norm", "env"):
            out.append((fn, hexs(s)))
    pairs = [("", ""), ("a", "b"), ("/a/b", "/a/c"), ("a/", "a/."), ("/", "/x"), ("a/b/c", "a"), ("x", "/y"), ("", "a"),
             ("//", "/a"), ("a/b", "")]
    for a, b in pairs:
        out.append(("join", hexs(a) + " " + hexs(b)))
        out.append(("rel", hexs(a) + " " + hexs(b)))
    out.append(("join", "NULL " + hexs("b")))
    out.append(("join", hexs("a") + " NULL"))
    for n in (60, 127, 128, 129, 255, 256, 257, 258, 511, 512, 513, 1023, 1024, 1025):
        out.append(("fs", "mkdirs %d" % n))
    out.append(("fs", "cwdlong"))
    # the default allocator itself (src/allocator.c): entry -> libc call, through the NULL-allocator wrappers
    for _ in range(12 if not big else 60):
        reqs, nblk, live = [], 0, []
        for _ in range(r.randrange(2, 12)):
            x = r.random()
            if x < 0.25:
                reqs.append("m%d" % r.choice([0, 1, 8, 24, 100, 4096])); live.append((nblk, "p")); nblk += 1
            elif x < 0.4:
                reqs.append("c%dx%d" % (r.choice([0, 1, 3, 16]), r.choice([0, 1, 8, 40]))); live.append((nblk, "p")); nblk += 1
            elif x < 0.6:
                al = r.choice([8, 16, 64, 4096]); reqs.append("a%d:%d" % (al, al * r.choice([0, 1, 2, 5]))); live.append((nblk, "a")); nblk += 1
            elif x < 0.75 and [b for b in live if b[1] == "p"]:
                b = r.choice([b for b in live if b[1] == "p"]); reqs.append("r%d:%d" % (b[0], r.choice([1, 8, 64, 1000])))
            elif live:
                b = r.choice(live); live.remove(b); reqs.append(("f%d" if b[1] == "p" else "F%d") % b[0])
        out.append(("default", " ".join(reqs)))
    for op in ("mkdirs", "canon", "cwd", "tmpdir", "mktmp", "mktmpbad 0", "mktmpbad 1", "mktmpbad 2", "copy 5000", "copyfull 0", "copyfull 300", "copyfull 5000", "copyx 0", "copyx 511", "copyx 513", "copyx 70000",
               "equals 0", "equals 4095", "equals 4096", "equals 9000", "equals 9000 8999", "equals 9000 0",
               "equals 600 512"):
        out.append(("fs", op))
    return out


def case_line(comp, fault, args):
    return "%s %s %s" % (comp, fault, args)


def run(ctx, cases):
    """run cases (component may be btree64 -> second driver); returns list of output lines ('CRASH ...' for a
    case that aborts the driver: ASan/UBSan report, assertion, signal)"""
    out = [None] * len(cases)
    for variant, sel in (("", [i for i, c in enumerate(cases) if not c.startswith("btree64 ")]),
                         ("_p64", [i for i, c in enumerate(cases) if c.startswith("btree64 ")])):
        exe = ctx.path("drv_c07" + variant)
        todo = list(sel)
        while todo:
            lines = [cases[i].replace("btree64 ", "btree ", 1) for i in todo]
            rc, res, err = ctx.run_lines([exe], lines, timeout=900)
            good = [l for l in res if re.search(r"defalloc=\d+", l) or l == "?"]
            for i, l in zip(todo, good):
                out[i] = l
            if rc == 0 and len(good) == len(lines):
                break
            # the case after the last complete line aborted the driver
            j = len(good)
            if j >= len(todo):
                break
            first = [l for l in err.split("\n") if "ERROR" in l or "runtime error" in l or "Assertion" in l or "SUMMARY" in l][:2]
            out[todo[j]] = "CRASH rc=%d %s" % (rc, " / ".join(x.strip()[:160] for x in first) or err.strip()[:200])
            todo = todo[j + 1:]
    return out


TAIL = re.compile(r"req=(\d+) failed=(\d+) out=(\d+) err=(\d+) spurious=(\d+) defalloc=(\d+)")


def tail(line):
    m = TAIL.search(line)
    return tuple(map(int, m.groups())) if m else None


def trace_of(line):
    m = re.search(r"trace=(.*)$", line)
    t = m.group(1).strip() if m else "-"
    return [re.sub(r"^(A\d+:[pa]):\d+$", r"\1", e) for e in t.split()] if t != "-" else []


def oracle_bits(fault, failed):
    if fault == "@N" or fault == "@D":
        return "-"
    k = int(fault[2:])
    return "1" * k + "0" * (1 if fault[1] == "F" else max(failed, 1))


def judge(comp, fault, args, line, nofault_line, oracle):
    """returns list of problem strings (empty = line satisfies the contract).  `oracle(lines)` runs the extracted
    Coq spec driver on T/L/G lines and returns its answers."""
    if line is None or line.startswith("CRASH") or line == "?":
        return ["crash or no output: %s" % line]
    tl = tail(line)
    if tl is None:
        return ["malformed line"]
    req, failed, outst, err, spurious, defalloc = tl
    probs = []
    if outst:
        probs.append("leak: %d blocks outstanding after the object was freed / the function returned" % outst)
    if err:
        probs.append("allocator protocol error: " + (re.search(r'first_error="([^"]*)"', line) or [None, "?"])[1])
    if spurious:
        probs.append("NO_MEM reported although no request was refused")
    m = re.search(r" fds=(-?\d+)", line)
    if m and int(m.group(1)) != 0:
        probs.append("%s file descriptor(s) opened by the call are still open after it returned" % m.group(1))
    m = re.search(r" libc=(-?\d+)", line)
    if m and int(m.group(1)) > 0:
        probs.append("the C library's heap grew by %s bytes across the call: a block obtained behind the caller's "
                     "allocator was not released" % m.group(1))
    if defalloc and fault != "@D" and comp != "default":
        probs.append("default allocator used although the caller supplied one (%d calls)" % defalloc)
    body = line.split(" ; ")[0]
    if comp == "default":
        # L1: what a caller can observe (alignment, zeroed calloc memory, realloc keeps contents); the exact libc
        # calls are compared with the model as L2 (model_trace_cmd)
        m = re.search(r"sem=(\d+)", body)
        sem = int(m.group(1)) if m else -1
        if sem & 1:
            probs.append("default aligned_alloc returned a misaligned block")
        if sem & 2:
            probs.append("default calloc returned memory that is not zero")
        if sem & 4:
            probs.append("default realloc lost the contents")
        if sem < 0:
            probs.append("malformed line")
        return probs
    if comp in ("btree", "btree64", "hash", "tree"):
        if body.startswith("new:NULL"):
            if not failed and fault != "@D":
                probs.append("constructor returned NULL with no refused request")
            return probs
        reports = [t for t in body.split()[1:] if t not in ("!", "*")]
        dup = "1" if (comp == "tree" and args.split()[0] == "d") else "0"
        ans = oracle(["T %s %s" % (dup, " ".join(reports))])[0]
        m = re.search(r"size=(\d+) list=(\S+)", line)
        if not ans.startswith("T OK"):
            idx = int(ans.split()[-1]) if ans.split()[-1].isdigit() else -1
            probs.append("report %d (%s) contradicts the contract" % (idx, reports[idx] if 0 <= idx < len(reports) else "?"))
        elif m:
            want = ans.split()[2]
            if m.group(2) != want:
                probs.append("contents %s differ from the contract's %s" % (m.group(2), want))
            n = 0 if want == "-" else len(want.split(","))
            if int(m.group(1)) != n:
                probs.append("size %s != %d" % (m.group(1), n))
        if "MISMATCH" in line:
            probs.append("find and find_record disagree")
    else:
        nf = nofault_line.split(" ; ")[0] if nofault_line else None
        if "res=NULL" in body:
            if not failed and not (nf and "res=NULL" in nf):
                probs.append("NULL result although no request was refused")
        elif nf is not None and comp != "fs" and body != nf:
            probs.append("result differs from the fault-free result")
        if comp == "fs":
            op = args.split()[0]
            if op == "mkdirs":
                if "st=NO_MEM" in body and not failed:
                    probs.append("NO_MEM without refused request")
                if "st=SUCCESS" in body and "isdir=1" not in body:
                    probs.append("SUCCESS but not a directory")
                if "st=SUCCESS" not in body and "st=NO_MEM" not in body:
                    probs.append("unexpected status")
            elif op in ("canon", "cwd") and "res=str" in body and "same=1" not in body:
                probs.append("wrong path returned")
            elif op == "mktmp" and "res=str" in body and "isdir=1" not in body:
                probs.append("temporary directory not created")
            elif op in ("mktmp", "mktmpbad") and "left=0" not in body:
                probs.append("a directory was left behind by a call that did not return it")
            elif op == "mktmpbad" and "res=NULL" not in body:
                probs.append("a refused pattern did not yield NULL")
            elif op == "copyfull" and body != "st=error":
                if not (args.split()[1] == "0" and body == "st=SUCCESS"):     # nothing to write: nothing can fail
                    probs.append("a copy onto a device that accepts no data did not report an error: " + body)
            elif op in ("copy", "copyx") and body != "st=SUCCESS equal=1":
                probs.append("copy did not complete through the documented fall-back: " + body)
            elif op == "equals":
                want = "equals=0" if len(args.split()) > 2 else "equals=1"
                if body != want:
                    probs.append("file_equals answered %s, expected %s" % (body, want))
    # allocator discipline on the trace (C08): every block released exactly once through the matching entry
    tr = trace_of(line)
    if fault != "@D" and oracle(["L " + (" ".join(tr) or "-")])[0] != "L OK":
        probs.append("allocation trace violates the allocator discipline: " + " ".join(tr)[:200])
    return probs


def model_trace_cmd(comp, fault, args, line, nofault_line):
    """G line for the fixed-pattern functions (L2: model trace == implementation trace), or None"""
    tl = tail(line)
    if tl is None or fault == "@D":
        return None
    if comp == "default":
        return "D " + args
    bits = oracle_bits(fault, tl[1])
    if comp == "ring":
        return "G ring " + bits
    if comp in ("sv", "pref", "norm", "join"):
        return "G one " + bits
    if comp == "rel":
        n = len([e for e in trace_of(nofault_line) if e.startswith("A")]) if nofault_line else 1
        return "G one " + bits if n == 1 else None
    if comp == "env":
        n = len([e for e in trace_of(nofault_line) if e.startswith("A")]) if nofault_line else 0
        return "G chain %s %d" % (bits, n)
    if comp == "fs":
        op = args.split()[0]
        if op == "mkdirs":
            return "G mkdirs " + bits
        if op in ("canon", "cwd", "tmpdir", "mktmp", "mktmpbad"):
            return "G one " + bits
        if op == "cwdlong":
            return None
        if op == "copyx" and args.split()[1] != "0":   # an empty source never reaches the block path
            return "G copyblk " + bits
        if op == "equals" and nofault_line and trace_of(nofault_line):
            return "G equals " + bits
    return None
