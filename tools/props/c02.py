"""C02 — B-tree positional queries: lower_bound, find, remove-next, increment (src/btree.c)."""
import sys

import vlib
from props import btreelib as bt

PROPS = "Properties_C02"
# leaf functions / constants of btree.c are re-translated from the C source on every run (tools/translate_leaf.py ->
# coq/gen/Leaf.v, Constants.v) and re-proved equal to the model's (coq/Properties_leaf_btree.v)
EXTRA_PROPS = ["Properties_leaf_btree"]


def REGEN(ctx):
    vlib.regen_leaf(ctx, ["BTree"])


RULE = ("tree states built by random insert/remove histories at page sizes 64/128/256/4096; per state: lower_bound "
        "with the tree comparator and with a wildcard comparator (key/16) for every stored key and every gap "
        "(below min .. above max), suffix walks from lower bounds, iter_equals on sampled position pairs; and for "
        "sampled states one case per stored element removing exactly that element (next iterator); plus maximal trees AT "
        "the capacity of page size 64 (fills continued past the first OVERFLOW; tolerant Python spec); non-trivial = "
        "case with at least one probe or a removal on a tree of height >= 2; distinct case strings counted")
ASSUMPTIONS = [
    "search comparators are compatible with the tree order (monotone along it); the wildcard used by the driver "
    "matches all keys with the same key/16",
    "remove's next is compared as the element it dereferences to (spec) and as (level, index path) (model)",
    "iterator indexes are uint16_t: every configuration the sources accept has LEAF_VALS <= 65535 (static assertion, fix 627c158; "
    "the check verifies that page size 1048576 is rejected at compile time), so by iter_indexes_fit_uint16 no index is truncated",
]


def build(ctx):
    bt.build(ctx)
    # fixed 627c158: a configuration whose LEAF_VALS does not fit the uint16_t iterator indexes must not compile;
    # should it compile again, the old witness is run on the implementation and a wrong dereference is a violation
    ok, detail, impl_line = bt.huge_page_check(ctx)
    ctx.notes.append("uint16 iterator indexes: " + detail)
    ctx.coverage["huge_page_rejected"] = impl_line is None
    if not ok:
        ctx.report_violation({"case": "%d - i1.1 .. i%d.%d f%d   (ascending inserts, then find; implementation only)"
                                      % (bt.HUGE_PAGE, bt.UINT16_N, bt.UINT16_N, bt.UINT16_PROBE),
                              "uint16_witness": True,
                              "impl": (impl_line or "").split(" || ")[0][-300:],
                              "spec": "f:SUCCESS:%d" % bt.UINT16_PROBE,
                              "what": "iterator indexes are uint16_t but the sources accept a page size with LEAF_VALS > 65535: "
                                      "zix_btree_find returns an iterator that dereferences to the wrong element. " + detail})


def replay(ctx, path):
    import json
    r = json.load(open(path))
    if r.get("uint16_witness"):
        ok, detail, _ = bt.huge_page_check(ctx)
        print(detail)
        print("spec holds on impl: %s" % ok)
        return 0 if ok else 1
    return vlib.replay(ctx, sys.modules[__name__], path)


def corpus(ctx):
    return bt.corpus(ctx, "C02")


def probe_ops(r, keys, dense_limit=260):
    if not keys:
        return ["b0", "p0", "s0", "e"]
    lo, hi = min(keys) - 1, max(keys) + 1
    pts = list(range(lo, hi + 1))
    if len(pts) > dense_limit:
        ks = sorted(keys)
        sel = set(r.sample(ks, min(len(ks), dense_limit // 3)))
        pts = sorted(set([lo, hi, lo + 1, hi - 1] + [k + d for k in sel for d in (-1, 0, 1)]))
    ops = ["b%d" % k for k in pts]
    ops += ["p%d" % k for k in pts if k % 3 == 0 or k in (lo, hi)]
    ops += ["s%d" % k for k in r.sample(pts, min(4, len(pts)))]
    ops += ["e"]
    for k in r.sample(sorted(keys), min(6, len(keys))):
        ops.append("f%d" % k)
    return ops


def gen(ctx, seed, tier):
    r = ctx.rng("gen", seed)
    quick = tier == "quick"
    cases = []
    plan = {64: (140, 30) if quick else (2700, 500), 128: (40, 8) if quick else (750, 120),
            256: (16, 4) if quick else (300, 50), 4096: (4, 2) if quick else (60, 16)}
    for page, (nprobe, nrem) in plan.items():
        for j in range(nprobe + nrem):
            # comparator magnitude: -1/1, the key difference ('d'), INT_MIN/INT_MAX ('x'): only the sign may matter
            # one history in six carries allocation scripts (op O<bits>): after an insertion that failed for lack of
            # memory the positional queries are compared with the model (L2; the spec line is '*' from the script on)
            h = bt.gen_history(r, page, tier, flags="2" + r.choice(["", "", "", "", "d", "x"]), walks=False,
                               allow_oracle=(r.random() < 0.17), oracle_p=1.0, null_p=r.choice([0.0, 0.0, 0.2]))
            base = [o for o in h.ops if o != "w"]
            if j < nprobe:
                cases.append("%d %s %s w %s" % (page, h.flags, " ".join(base), " ".join(probe_ops(r, h.keys))))
            else:
                ks = sorted(h.keys)
                if len(ks) > 70:
                    ks = sorted(r.sample(ks, 70))
                for k in ks:
                    cases.append("%d %s %s r%d w" % (page, h.flags, " ".join(base), k))
                # absent key: next is unconstrained, tree unchanged
                cases.append("%d %s %s r%d w" % (page, h.flags, " ".join(base), (max(h.keys) + 2) if h.keys else 3))
    if seed == ctx.seed:
        cases += cap_states(ctx.rng("cap", seed), 3 if quick else 8)
    return cases


def cap_states(r, n_perm):
    """states AT the capacity of page size 64: fills (ascending, descending, permuted) that continue until well after
    insert answers OVERFLOW, i.e. maximal trees of exactly ZIX_BTREE_MAX_HEIGHT levels with a full root; then every
    key and gap probed, suffix walks, iter_equals, and one removal (with next) per sampled element.  Flags '2n': the
    spec of these cases is the tolerant Python spec (insert may answer OVERFLOW at or above the cap)."""
    out = []
    fills = [list(range(1, 560)), list(range(559, 0, -1))]
    for _ in range(n_perm):
        ks = list(range(1, 700))
        r.shuffle(ks)
        fills.append(ks)
    for ks in fills:
        base = " ".join("i%d.%d" % (k, j + 1) for j, k in enumerate(ks))
        lo, hi = min(ks) - 1, max(ks) + 1
        probes = ["b%d" % k for k in range(lo, hi + 1)] + ["p%d" % k for k in range(lo, hi + 1, 3)]
        probes += ["s%d" % k for k in r.sample(range(lo, hi + 1), 4)] + ["e"]
        probes += ["f%d" % k for k in r.sample(ks, 40)]
        out.append("64 2n %s w %s" % (base, " ".join(probes)))
        for k in r.sample(ks, 24):
            out.append("64 2n %s r%d w e" % (base, k))
    return out


def targeted(ctx):
    """directed cases for the search: dense trees at every page size, every key and gap probed, every element removed"""
    out = []
    r = ctx.rng("targeted")
    for page, n in ((64, 120), (128, 300), (256, 700)):
        keys = [3 * k for k in range(1, n + 1)]
        for order in (keys, keys[::-1]):
            base = " ".join("i%d.%d" % (k, j + 1) for j, k in enumerate(order))
            out.append("%d 2 %s w %s" % (page, base, " ".join(probe_ops(r, set(keys), dense_limit=3 * n + 10))))
            for k in keys[::max(1, n // 120)]:
                out.append("%d 2 %s r%d w" % (page, base, k))
    return out


def run_impl(ctx, cases):
    return bt.run_impl(ctx, cases)


def run_model(ctx, cases):
    return bt.run_model(ctx, cases)


def nontrivial(c):
    t = c.split()
    return len(t) >= 9 and any(x[0] in "bpsr" for x in t[2:])


def tokens(case):
    untokens.head = " ".join(case.split()[:2])
    return case.split()[2:]


def untokens(toks):
    return untokens.head + " " + " ".join(toks)


untokens.head = "64 2"


def l1_extra(case, impl_obs):
    if impl_obs.startswith("CRASH") or impl_obs.startswith("ASSERT-BUILD-DIFFERS"):
        return False
    if "n" in case.split()[1]:
        # states at the capacity (flags '2n': the spec line is '*'): the sorted-list spec is evaluated here, tolerant
        # only about insert answering OVERFLOW once the size has reached cap(page)
        return bt.tolerant_spec_ok(case, impl_obs)
    return True


def stats(cases, impl):
    d = {"ops": bt.op_histogram(cases), "statuses": bt.status_histogram(impl)}
    lb_end = lb_hit = nxt_end = nxt_elt = 0
    for l in impl:
        for t in l.split(" || ")[0].split():
            if t.startswith("b:") or t.startswith("p:"):
                if t.endswith(":end"):
                    lb_end += 1
                else:
                    lb_hit += 1
            elif t == "nend":
                nxt_end += 1
            elif t[0] == "n" and t[1:].isdigit():
                nxt_elt += 1
    # frames: how deep the returned iterators are
    lv = {}
    for l in impl:
        if " || " not in l:
            continue
        for t in l.split(" || ")[1].split():
            if "@" in t:
                k = "iter_level_" + t.split("@")[0]
                lv[k] = lv.get(k, 0) + 1
    d.update({"lower_bound_end": lb_end, "lower_bound_element": lb_hit, "remove_next_end": nxt_end,
              "remove_next_element": nxt_elt, "returned_iterator_levels": lv})
    return d
