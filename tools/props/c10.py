"""C10 — path decomposition and queries follow the C++17 std::filesystem::path model.

cases:  "P <hex>" (a path string) | "N" (NULL, queries only)
        | "B <chunks> <tailhex>" ('x' * (chunks * 64 MiB) + tail, i.e. longer than 4 GiB, in a separate unsanitized
          helper; expected line derived from the model/spec line of the short stand-in 'xxx' + tail)
        | "Q <hex1> <hex2>" (the same buffer holding string 1, then rewritten in place to string 2: every function is
          called before and after the rewrite inside one C function of the -O2 driver; each call must answer for the
          string it sees, which is what a declaration promising too much -- __attribute__((const)) -- breaks)
L1: spec line from the extracted Coq spec (PathDecSpec.v): text for root_name/relative_path/filename/
    stem/extension, canonical path form (separator runs collapsed) for root_directory/root_path/
    parent_path, the ten queries, and "every view is a slice of the input" (in= bits).
L2: additionally every view as (offset+length) relative to the input pointer.
The Coq spec itself is validated against libstdc++ (harness/std_path_c10.cpp) on the same cases
(a sample in the quick tier, all of them in the thorough tier); a disagreement there is a machinery
bug (the check fails as such), never a property violation."""
import itertools
import os
import re

import vlib

PROPS = "Properties_C10"
# leaf functions / constants of path.c are re-translated from the C source on every run (tools/translate_leaf.py ->
# coq/gen/Leaf.v, Constants.v) and re-proved equal to the model's (coq/Properties_leaf_path.v)
EXTRA_PROPS = ["Properties_leaf_path", "Properties_C10_win"]


def REGEN(ctx):
    vlib.regen_leaf(ctx, ["Path"])


RULE = ("every string over {'/','.','a','b'} up to length 7 (quick) / 10 plus every string over {'/','.','a'} of "
        "length 11 (thorough), random strings up to length 300 over separator/dot-heavy byte alphabets (bytes 1..255), "
        "pattern strings (separator runs x dot names), NULL for the queries, and rewritten-buffer pairs (every ordered "
        "pair of strings up to length 3 (quick) / 4 (thorough) over the same alphabet + random longer pairs); non-trivial = a string containing a "
        "separator or a dot; distinct case strings counted.  W cases (path.c built with -D_WIN32, judged by the "
        "extracted PathWinSpec only): every string over {/ \\ : C a .} up to length 5 (quick) / 7 (thorough), every byte "
        "in front of a colon with four tails, random strings with drive and network root names")
ASSUMPTIONS = [
    "64-bit size_t and full-width index fields (ZixIndexRange.begin/end, ZixStringView.length) are asserted at "
    "compile time by the driver and exercised by strings of 2^32 + k bytes (1 in quick, 8 in thorough); if the "
    "4 GiB mapping is impossible the case is SKIPped and a note is written",
    "POSIX build of path.c (the #else branch: '/' is the only separator, root_name is always empty); the _WIN32 "
    "branch is not modelled",
    "size_t arithmetic is modelled in Z without wrap-around: the only sums stay below 2*len+2, so no wrap for any "
    "string that fits in a 64-bit address space; a subtraction below zero would surface as a negative index (Oob)",
    "path.length = strlen(path) is taken as the list length (strings contain no NUL byte)",
    "libstdc++ 12 is the executable meaning of 'the C++17 model' used to validate PathDecSpec.v (every case in the "
    "thorough tier); NULL is taken to stand for the empty path in the queries",
    "paths are compared as (root-directory flag, element list); the drivers print that as text with separator runs "
    "collapsed, which is a bijection on POSIX",
]

ALPHA4 = (0x2f, 0x2e, 0x61, 0x62)
ALPHA3 = (0x2f, 0x2e, 0x61)


def P(bs):
    return "P " + ("".join("%02x" % b for b in bs) or "-")


def bytes_of(case):
    """the string of a P case; for a Q case the two strings joined by a NUL (statistics only)"""
    t = case.split()
    if t[0] == "B":
        return b"x/" + (b"" if t[2] == "-" else bytes.fromhex(t[2]))
    if t[0] == "Q":
        return b"\0".join(b"" if h == "-" else bytes.fromhex(h) for h in t[1:3])
    if t[0] not in ("P", "W") or t[1] == "-":
        return b""
    return bytes.fromhex(t[1])


def Q(a, b):
    return "Q %s %s" % (P(a)[2:], P(b)[2:])


# ---- second line of defence for the rewritten-buffer probe: the declared attributes of path.h -------------
READS_MEMORY = {"ZIX_PURE_API", "ZIX_PURE_FUNC"}
CONST_STUB_OK = {"zix_path_root_name", "zix_path_has_root_name"}     # constant stubs off Windows
C10_FUNCS = ["zix_path_root_name", "zix_path_root_directory", "zix_path_root_path", "zix_path_relative_path",
             "zix_path_parent_path", "zix_path_filename", "zix_path_stem", "zix_path_extension",
             "zix_path_has_root_path", "zix_path_has_root_name", "zix_path_has_root_directory",
             "zix_path_has_relative_path", "zix_path_has_parent_path", "zix_path_has_filename", "zix_path_has_stem",
             "zix_path_has_extension", "zix_path_is_absolute", "zix_path_is_relative"]


def declaration_mismatches(repo):
    """every function of path.h that takes a `const char*` must be declared as reading memory (pure), never as
    depending on its pointer value only (const); only the root_name pair may be the POSIX constant stub"""
    import re
    bad = []
    def read(rel):
        txt = open(os.path.join(repo, rel)).read()
        return re.sub(r"//[^\n]*", "", re.sub(r"/\*.*?\*/", "", txt, flags=re.S))
    try:
        hdr = read("include/zix/path.h")
        attrs = read("include/zix/attributes.h")
    except OSError as e:
        return ["path.h/attributes.h unreadable: %s" % e]
    # the macros must still mean what the check assumes
    if not re.search(r"define\s+ZIX_PURE_FUNC\s+__attribute__\(\(pure\)\)", attrs):
        bad.append("ZIX_PURE_FUNC is no longer __attribute__((pure))")
    m = re.search(r"define\s+ZIX_PURE_API\s+([^\n]*)", attrs)
    if not m or "ZIX_PURE_FUNC" not in m.group(1) or "CONST" in m.group(1):
        bad.append("ZIX_PURE_API no longer expands to ZIX_PURE_FUNC")
    seen = {}
    for m in re.finditer(r"((?:ZIX_[A-Z_]+\s+)+)([A-Za-z_][\w \t\*]*?)\s*\b(zix_path_\w+)\s*\(([^)]*)\)\s*;", hdr):
        macros = m.group(1).split()
        name, params = m.group(3), m.group(4)
        if "const char*" not in params.replace(" *", "*"):
            continue
        seen[name] = macros
        konst = [a for a in macros if "CONST" in a or a == "ZIX_PURE_WIN_API"]
        if konst and name not in CONST_STUB_OK:
            bad.append("%s is declared %s (= __attribute__((const)) off Windows) but reads the string it is given"
                       % (name, " ".join(konst)))
        if name in C10_FUNCS and name not in CONST_STUB_OK and not (set(macros) & READS_MEMORY):
            if not konst:
                bad.append("%s is declared %s, expected ZIX_PURE_API" % (name, " ".join(macros)))
    for f in C10_FUNCS:
        if f not in seen:
            bad.append("%s: declaration not found in path.h" % f)
    return bad


def _stale(target, sources):
    if not os.path.exists(target):
        return True
    t = os.path.getmtime(target)
    return any(os.path.exists(s) and os.path.getmtime(s) > t for s in sources)


def build(ctx):
    # -O2 (overrides vlib's -O1): the rewritten-buffer probe needs an optimising caller
    try:
        ctx.build_driver("drv_c10", ["path.c", "string_view.c", "allocator.c"], flags=["-O2"])
    except vlib.BuildError as e:
        m = re.search(r"C10 layout: [^\n\"]*", str(e))
        if not m:
            raise
        # an index field is narrower than size_t: the tie between the unbounded-index model and the code is broken.
        # Report it and build without the assertion so that the search can still look for a failing input.
        ctx.broken.append("correspondence:layout " + m.group(0))
        ctx.build_driver("drv_c10", ["path.c", "string_view.c", "allocator.c"], flags=["-O2", "-DC10_NO_LAYOUT_ASSERT"])
    try:
        ctx.build_driver("drv_c10", ["path.c", "string_view.c", "allocator.c"], flags=["-O0", "-DC10_NO_LAYOUT_ASSERT"],
                         out=ctx.path("drv_c10_O0"))
    except vlib.BuildError:
        pass
    # the Windows configuration of path.c (plain C: it compiles here with -D_WIN32): W cases, judged by the
    # extracted PathWinSpec (spec only: those branches have no Coq model)
    try:
        obj = ctx.path("path_win.o")
        ctx.cc(ctx.repo_src("path.c"), obj, flags=["-D_WIN32"], link=False)
        ctx.cc([os.path.join(vlib.HARNESS, "drv_c10.c"), obj] + ctx.repo_src("string_view.c", "allocator.c"),
               ctx.path("drv_c10_win"), flags=["-DC10_WIN", "-DC10_NO_LAYOUT_ASSERT"])
    except vlib.BuildError as e:
        ctx.broken.append("correspondence:C10 the Windows configuration of path.c (-D_WIN32) no longer builds here: "
                          + str(e)[-300:].replace("\n", " "))
    # the > 4 GiB string runs in its own, NOT sanitized binary
    ctx.cc([os.path.join(vlib.HARNESS, "big_c10.c")] + ctx.repo_src("path.c", "string_view.c", "allocator.c"),
           ctx.path("big_c10"), flags=["-O2"], sanitize=False)
    ctx.c10_big_skipped = False
    for b in declaration_mismatches(vlib.REPO):
        ctx.broken.append("correspondence:declaration " + b)
    ctx.cc([os.path.join(vlib.HARNESS, "std_path_c10.cpp")], ctx.path("std_path_c10"), cxx=True, sanitize=False)
    exe = os.path.join(vlib.OCAML_BUILD, "drv_c10")
    srcs = [os.path.join(vlib.COQ, f) for f in ("PathDecSpec.v", "PathDecModel.v", "ExtractC10.v")] + \
           [os.path.join(vlib.VERIF, "ocaml", "drv_c10.ml")]
    if _stale(exe, srcs):
        rc, out, err = vlib.sh([os.path.join(vlib.VERIF, "tools", "build_models.sh"), "C10"], timeout=900)
        if rc != 0:
            raise vlib.BuildError("model build failed: " + (out + err)[-1500:])
    ctx.c10_oracle = {"compared": 0, "disagreements": 0}


def enum(alpha, lo, hi):
    for n in range(lo, hi + 1):
        for t in itertools.product(alpha, repeat=n):
            yield P(t)


def rand_cases(r, count, maxlen):
    out = []
    alphabets = [
        [0x2f, 0x2e, 0x61],
        [0x2f, 0x2f, 0x2e, 0x2e, 0x61, 0x62, 0x2d, 0x20, 0x5c, 0x3a],
        [0x2f, 0x2e] + list(range(1, 256)),
        [0x2f] * 40 + [0x2e] * 40 + list(range(1, 256)),
    ]
    for _ in range(count):
        a = r.choice(alphabets)
        n = r.choice([r.randint(8, 16), r.randint(8, 40), r.randint(8, maxlen)])
        out.append(P([r.choice(a) for _ in range(n)]))
    return out


SMALL_PAIRS = [(b"/a", b"a"), (b"a", b"/a"), (b"a.b", b"a"), (b"a", b"a.b"), (b"//", b""), (b"", b"//"),
               (b"a/b", b"b"), (b"b", b"a/b"), (b"a/", b"a"), (b"a", b"a/"), (b".a", b"a.a"), (b"a.a", b".a"),
               (b"..", b"a."), (b"a.", b".."), (b"/", b"."), (b".", b"/"), (b"/usr/lib", b"usr/lib"),
               (b"///x", b"x"), (b"/.hidden", b".hidden"), (b"a/b.c", b"a.b/c"), (b"a.b/c", b"a/b.c")]


def pair_cases(r, maxlen, nrandom):
    """same pointer, rewritten buffer: ordered pairs of strings whose answers differ in every combination"""
    out = [Q(a, b) for (a, b) in SMALL_PAIRS]
    small = [t for n in range(0, maxlen + 1) for t in itertools.product(ALPHA4, repeat=n)]
    out += [Q(a, b) for a in small for b in small]
    for _ in range(nrandom):
        a = [r.choice(ALPHA4 + (0x2f, 0x2e)) for _ in range(r.randint(0, 24))]
        b = [r.choice(ALPHA4 + (0x2f, 0x2e)) for _ in range(r.randint(0, 24))]
        out.append(Q(a, b))
    return out


def patterns():
    """separator runs x names built from dots: the arrangements the scanners branch on"""
    names = [b"", b"a", b".", b"..", b"...", b".a", b"a.", b"..a", b"a..", b".a.", b"a.b", b".a.b", b"a.b.c", b"a..b",
             b"ab", b"\xff", b"\x01."]
    runs = [b"", b"/", b"//", b"///"]
    out = []
    for lead in runs:
        for n1 in names:
            for mid in runs[1:]:
                for n2 in names:
                    for trail in runs:
                        out.append(P(lead + n1 + mid + n2 + trail))
            for trail in runs:
                out.append(P(lead + n1 + trail))
    for k in (5, 17, 64):
        out.append(P(b"/" * k))
        out.append(P(b"/" * k + b"a"))
        out.append(P(b"a" + b"/" * k))
        out.append(P(b"." * k))
        out.append(P(b"a" * k + b"." + b"b" * k))
    return out


BIG_K = 3          # the short stand-in has 3 'x' where the big string has BIG_CHUNKS * 64 MiB of them
BIG_CHUNKS = 64    # 64 * 64 MiB = 2^32
BIG_TAILS = [b"/name.txt", b"", b"/", b"//a", b".txt", b"/.a", b"/a/", b"/a//b.c.d"]


def B(tail):
    return "B %d %s" % (BIG_CHUNKS, P(tail)[2:])


def big_cases(tier):
    """strings longer than 4 GiB ('x' * 2^32 + tail): no index may be narrower than size_t"""
    return [B(t) for t in (BIG_TAILS if tier == "thorough" else BIG_TAILS[:1])]


def _standin_filler(tail):
    """a name character that does not occur in the tail (spec and model only ever test for '/' and '.')"""
    return next(b for b in b"XYZWVUTSRQ" if b not in tail)


def _big_expected(small_line, n, filler):
    """expected line for 'x'*n + tail from the model/spec line for filler*BIG_K + tail: the run is one block of
    name characters, so every view boundary is 0 or lies at/after the end of the run"""
    fh = "%02x" % filler
    def text(v):
        if v in ("-", "OOB", "NOFUEL"):
            return v
        bs = [v[i:i + 2] for i in range(0, len(v), 2)]
        c = bs.count(fh)
        if c == 0:
            return v
        i = bs.index(fh)
        if c != BIG_K or bs[i:i + BIG_K] != [fh] * BIG_K:
            raise RuntimeError("big-string expectation: a view cuts the 'x' run: " + v)
        return "".join(bs[:i]) + "(78*%d)" % n + "".join(bs[i + BIG_K:])

    def endpoint(e):
        if e == 0:
            return 0
        if e < BIG_K:
            raise RuntimeError("big-string expectation: a view boundary inside the 'x' run")
        return e + n - BIG_K

    def struct(v):
        if "+" not in v or v.startswith("ext"):
            return v
        o, l = map(int, v.split("+"))
        a, b = endpoint(o), endpoint(o + l)
        return "%d+%d" % (a, b - a)
    parts = small_line.split(" || ")
    out = []
    for t in parts[0].split():
        k, _, v = t.partition("=")
        out.append(t if k in ("q", "in") else k + "=" + text(v))
    res = " ".join(out)
    if len(parts) > 1:
        res += " || " + " ".join(k + "=" + struct(v) for k, _, v in (t.partition("=") for t in parts[1].split()))
    return res


WIN_ALPHA = [0x2f, 0x5c, 0x3a, 0x43, 0x61, 0x2e]       # / \ : C a .


def win_cases(r, tier, random_only=False):
    """strings for the Windows configuration: exhaustive over {/ \\ : C a .} (length <= 5 quick, 7 thorough), every
    byte in front of a colon, and random longer ones with drive and network root names"""
    out = []
    if not random_only:
        for n in range(0, (8 if tier == "thorough" else 6)):
            for t in itertools.product(WIN_ALPHA, repeat=n):
                out.append("W " + (bytes(t).hex() or "-"))
        for c in range(1, 256):
            for tail in (b":", b":x", b":/x", b":\\x.y"):
                out.append("W " + (bytes([c]) + tail).hex())
    segs = [b"", b".", b"..", b"a", b"b.c", b".d", b"e.", b"C:", b"c:", b"host", b"x:y", b"_:", b"1:"]
    for _ in range(3000 if tier == "thorough" else 600):
        pre = r.choice([b"", b"", b"C:", b"z:", b"//host", b"\\\\srv", b"/\\h", b"///", b"\\", b"_:", b"C:C:"])
        body = b""
        for _ in range(r.randint(0, 5)):
            body += r.choice([b"/", b"\\", b"//", b"\\/", b""]) + r.choice(segs)
        out.append("W " + ((pre + body + r.choice([b"", b"/", b"\\"])).hex() or "-"))
    return out


def gen(ctx, seed, tier):
    r = ctx.rng("gen", seed)
    if seed != ctx.seed:                      # extra seeds of the search: the random part only
        return rand_cases(r, 4000, 300) + pair_cases(r, 1, 2000) + win_cases(r, tier, random_only=True)
    cases = ["N"] + win_cases(r, tier)
    if tier == "thorough":
        cases += list(enum(ALPHA4, 0, 10))
        cases += list(enum(ALPHA3, 11, 11))
        cases += patterns()
        cases += rand_cases(r, 20000, 300)
        cases += pair_cases(r, 4, 20000)
        cases += big_cases(tier)
    else:
        cases += list(enum(ALPHA4, 0, 7))
        cases += patterns()
        cases += rand_cases(r, 2000, 300)
        cases += pair_cases(r, 3, 2000)
        cases += big_cases(tier)
    return cases


def targeted(ctx):
    return ["N"] + patterns() + list(enum(ALPHA3, 0, 8)) + pair_cases(ctx.rng("targeted"), 2, 3000) + \
        big_cases("thorough")


def corpus(ctx):
    p = os.path.join(vlib.VERIF, "corpus", "C10.txt")
    if not os.path.exists(p):
        return []
    return [l.strip() for l in open(p) if l.strip() and not l.startswith("#")]


def run_impl(ctx, cases):
    """the driver flushes every completed line, so after a crash (ASan/UBSan report, signal) the number of
    lines received tells which case was being processed; that case gets a CRASH line and the run resumes
    behind it (at most 100 times, then the rest is marked)"""
    if any(c.startswith("W ") for c in cases):
        widx = [i for i, c in enumerate(cases) if c.startswith("W ")]
        ws = set(widx)
        rest = iter(run_impl(ctx, [c for i, c in enumerate(cases) if i not in ws]))
        wout = []
        todo = ["P" + cases[i][1:] for i in widx]
        restarts = 0
        exe = ctx.path("drv_c10_win")
        while todo:
            if not os.path.exists(exe):
                wout += ["CRASH no Windows-configuration driver"] * len(todo)
                break
            rc, o, err = ctx.run_lines([exe], todo, timeout=1200)
            o = o[:len(todo)]
            wout += o
            todo = todo[len(o):]
            if not todo:
                break
            first = [l for l in err.split("\n") if "ERROR" in l or "runtime error" in l]
            wout.append("CRASH rc=%d %s" % (rc, " ".join((first[0] if first else "").split()[1:4])))
            todo = todo[1:]
            restarts += 1
            if restarts > 50:
                wout += ["CRASH rc=%d (too many restarts)" % rc] * len(todo)
                break
        wit = iter(wout)
        return [next(wit) if i in ws else next(rest) for i in range(len(cases))]
    if any(c.startswith("B ") for c in cases):
        small = [c for c in cases if not c.startswith("B ")]
        small_out = iter(run_impl(ctx, small) if small else [])
        out = []
        for c in cases:
            if not c.startswith("B "):
                out.append(next(small_out))
                continue
            rc, o, err = ctx.run_lines([ctx.path("big_c10")], [c], timeout=300)
            line = o[0] if (rc == 0 and o) else "CRASH rc=%d %s" % (rc, err.strip().split("\n")[0][:120] if err.strip() else "")
            if line == "SKIP":
                ctx.c10_big_skipped = True
                if "big-string case skipped" not in " ".join(ctx.notes):
                    ctx.notes.append("big-string case skipped: the helper could not map 4 GiB of address space")
            out.append(line)
        return out
    # second build without optimisation (calls such as memcmp are real calls there, seen by ASan's interceptors): the
    # P cases must give the same lines; where they do not (a sanitizer report, a different answer) that line is the
    # implementation's answer for the case
    if not getattr(ctx, "c10_in_o0", False) and os.path.exists(ctx.path("drv_c10_O0")):
        ctx.c10_in_o0 = True
        try:
            base = run_impl(ctx, cases)
            pidx = [i for i, c in enumerate(cases) if c.startswith("P ")]
            ctx.c10_exe = "drv_c10_O0"
            alt = run_impl(ctx, [cases[i] for i in pidx])
        finally:
            ctx.c10_exe = "drv_c10"
            ctx.c10_in_o0 = False
        for i, l in zip(pidx, alt):
            if l != base[i]:
                base[i] = l if l.startswith("CRASH") else "O0-DIFFERS " + l
        return base
    res = []
    rest = list(cases)
    restarts = 0
    while rest:
        rc, out, err = ctx.run_lines([ctx.path(getattr(ctx, "c10_exe", "drv_c10"))], rest, timeout=1200)
        if rc == 0 and len(out) == len(rest):
            res += out
            break
        out = out[:len(rest)]
        first = ""
        for l in err.strip().split("\n"):
            if "ERROR" in l or "runtime error" in l:
                first = " ".join(l.strip().split()[:4])
                first = first.replace("==%s==" % first.split("==")[1], "") if first.count("==") >= 2 else first
                break
        crash = "CRASH rc=%d %s" % (rc, first[:120].strip())
        res += out
        restarts += 1
        if len(out) >= len(rest) or restarts > 100:
            res += [crash] * (len(rest) - len(out))
            break
        res.append(crash)
        rest = rest[len(out) + 1:]
    return res


def _oracle(ctx, cases, spec):
    """validate the Coq spec lines against libstdc++ on these cases"""
    rc, out, err = ctx.run_lines([ctx.path("std_path_c10")], cases, timeout=1200)
    if rc != 0 or len(out) != len(cases):
        raise RuntimeError("libstdc++ oracle failed rc=%d lines=%d/%d %s" % (rc, len(out), len(cases), err[-300:]))
    bad = [i for i in range(len(cases)) if out[i].strip() != spec[i].strip()]
    ctx.c10_oracle["compared"] += len(cases)
    ctx.c10_oracle["disagreements"] += len(bad)
    if bad:
        i = bad[0]
        raise RuntimeError("MACHINERY BUG: Coq spec (PathDecSpec.v) disagrees with libstdc++ on %d cases; first %s: "
                           "spec '%s' libstdc++ '%s'" % (len(bad), cases[i], spec[i], out[i]))


def run_model(ctx, cases):
    bigs = [i for i, c in enumerate(cases) if c.startswith("B ")]
    if bigs:
        standin = list(cases)
        for i in bigs:
            tail = cases[i].split()[2]
            tail = b"" if tail == "-" else bytes.fromhex(tail)
            standin[i] = P(bytes([_standin_filler(tail)]) * BIG_K + tail)
        ms, ss = run_model(ctx, standin)
        for i in bigs:
            if getattr(ctx, "c10_big_skipped", False):
                ms[i], ss[i] = "SKIP", "SKIP"
            else:
                n = int(cases[i].split()[1]) * (64 << 20)
                f = bytes_of(standin[i])[0]
                ms[i], ss[i] = _big_expected(ms[i], n, f), _big_expected(ss[i], n, f)
        return ms, ss
    ms, ss = ctx.run_model("drv_c10", cases, timeout=1200)
    if len(cases) >= 50:
        if ctx.tier == "thorough":
            sample = list(range(len(cases)))
        else:
            r = ctx.rng("oracle", len(cases))
            sample = sorted(r.sample(range(len(cases)), min(len(cases), 6000)))
        sample = [i for i in sample if not cases[i].startswith("W ")]   # libstdc++ here parses the POSIX format only
        _oracle(ctx, [cases[i] for i in sample], [ss[i] for i in sample])
    return ms, ss


def nontrivial(c):
    b = bytes_of(c)
    return (b"/" in b) or (b"." in b) or (c.startswith("W ") and (b"\\" in b or b":" in b))


def tokens(case):
    if case == "N" or case.startswith("Q ") or case.startswith("B "):
        return [case]                      # not shrunk
    if case.startswith("W "):
        return ["W"] + ["%02x" % b for b in bytes_of(case)]
    return ["%02x" % b for b in bytes_of(case)]


def untokens(toks):
    if len(toks) == 1 and (toks[0] == "N" or toks[0][:2] in ("Q ", "B ")):
        return toks[0]
    if toks and toks[0] == "W":
        return "W " + ("".join(toks[1:]) or "-")
    return "P " + ("".join(t for t in toks if t != "W") or "-")


def stats(cases, impl):
    d = {"null_cases": 0, "rewritten_buffer_pairs": 0, "rooted": 0, "trailing_separator": 0, "with_dot": 0, "multi_separator_run": 0,
         "len_le_7": 0, "len_8_16": 0, "len_gt_16": 0, "non_ascii": 0}
    for c in cases:
        if c == "N":
            d["null_cases"] += 1
            continue
        if c.startswith("Q "):
            d["rewritten_buffer_pairs"] += 1
            continue
        if c.startswith("B "):
            d["strings_over_4GiB"] = d.get("strings_over_4GiB", 0) + 1
            continue
        b = bytes_of(c)
        d["rooted"] += b.startswith(b"/")
        d["trailing_separator"] += b.endswith(b"/")
        d["with_dot"] += b"." in b
        d["multi_separator_run"] += b"//" in b
        d["non_ascii"] += any(x > 127 for x in b)
        n = len(b)
        d["len_le_7" if n <= 7 else ("len_8_16" if n <= 16 else "len_gt_16")] += 1
    # how often each result is non-empty on the implementation (branch coverage of the scanners)
    names = ["rd", "rp", "rel", "par", "fn", "st", "ex"]
    for n in names:
        d["impl_nonempty_" + n] = 0
    for c, l in zip(cases, impl):
        if not c.startswith("P "):
            continue
        for t in vlib.obs(l).split():
            k, _, v = t.partition("=")
            if k in names and v != "-":
                d["impl_nonempty_" + k] += 1
    # which branch of the scanners each case took, read off the implementation's views
    br = {"parent_is_root": 0, "parent_general": 0, "parent_empty": 0, "filename_empty_trailing_sep": 0,
          "stem_is_whole_name_with_dot": 0, "stem_cut_at_last_dot": 0}
    for c, l in zip(cases, impl):
        if not c.startswith("P ") or " || " not in l:
            continue
        o = dict(t.split("=", 1) for t in vlib.obs(l).split())
        s = dict(t.split("=", 1) for t in l.split(" || ")[1].split())
        b = bytes_of(c)
        if s.get("par") == s.get("rp") and o.get("rp") != "-":
            br["parent_is_root"] += 1
        elif o.get("par") == "-":
            br["parent_empty"] += 1
        else:
            br["parent_general"] += 1
        if o.get("fn") == "-" and b.endswith(b"/") and b.strip(b"/"):
            br["filename_empty_trailing_sep"] += 1
        if o.get("fn") != "-" and o.get("ex") == "-" and "2e" in [o["fn"][i:i + 2] for i in range(0, len(o["fn"]), 2)]:
            br["stem_is_whole_name_with_dot"] += 1
        if o.get("ex") not in ("-", None):
            br["stem_cut_at_last_dot"] += 1
    d["branches"] = br
    return d


def check(ctx):
    rc = vlib.standard_check(ctx, __import__("props.c10", fromlist=["c10"]))
    # record the spec-vs-libstdc++ validation in the evidence
    import json
    p = os.path.join(vlib.VERIF, "evidence", "C10.json")
    if os.environ.get("VERIF_NO_EVIDENCE") or os.path.realpath(vlib.REPO) != "/repo":
        return rc
    try:
        ev = json.load(open(p))
        ev["coverage"]["spec_validated_against_libstdcxx"] = getattr(ctx, "c10_oracle", {})
        json.dump(ev, open(p, "w"), indent=1)
    except Exception:
        pass
    return rc
