"""C10 — path decomposition and queries follow the C++17 std::filesystem::path model.

cases:  "P <hex>" (a path string) | "N" (NULL, queries only)
L1: spec line from the extracted Coq spec (PathDecSpec.v): text for root_name/relative_path/filename/
    stem/extension, canonical path form (separator runs collapsed) for root_directory/root_path/
    parent_path, the ten queries, and "every view is a slice of the input" (in= bits).
L2: additionally every view as (offset+length) relative to the input pointer.
The Coq spec itself is validated against libstdc++ (harness/std_path_c10.cpp) on the same cases
(a sample in the quick tier, all of them in the thorough tier); a disagreement there is a machinery
bug (the check fails as such), never a property violation."""
import itertools
import os

import vlib

PROPS = "Properties_C10"
RULE = ("every string over {'/','.','a','b'} up to length 7 (quick) / 10 plus every string over {'/','.','a'} of "
        "length 11 (thorough), random strings up to length 300 over separator/dot-heavy byte alphabets (bytes 1..255), "
        "pattern strings (separator runs x dot names), and NULL for the queries; non-trivial = a string containing a "
        "separator or a dot; distinct case strings counted")
ASSUMPTIONS = [
    "POSIX build of path.c (the #else branch: '/' is the only separator, root_name is always empty); the _WIN32 "
    "branch is not modelled",
    "size_t arithmetic is modelled in Z without wrap-around: the only sums stay below 2*len+2, so no wrap for any "
    "string that fits in a 64-bit address space; a subtraction below zero would surface as a negative index (Oob)",
    "path.length = strlen(path) is taken as the list length (strings contain no NUL byte)",
    "libstdc++ 12 is the executable meaning of 'the C++17 model' used to validate PathDecSpec.v (every case in the "
    "thorough tier); NULL is taken to stand for the empty path in the queries",
    "paths are compared as (root-directory flag, element list); the drivers print that as text with separator runs "
    "collapsed, which is a bijection on POSIX",
]

ALPHA4 = (0x2f, 0x2e, 0x61, 0x62)
ALPHA3 = (0x2f, 0x2e, 0x61)


def P(bs):
    return "P " + ("".join("%02x" % b for b in bs) or "-")


def bytes_of(case):
    t = case.split()
    if t[0] != "P" or t[1] == "-":
        return b""
    return bytes.fromhex(t[1])


def _stale(target, sources):
    if not os.path.exists(target):
        return True
    t = os.path.getmtime(target)
    return any(os.path.exists(s) and os.path.getmtime(s) > t for s in sources)


def build(ctx):
    ctx.build_driver("drv_c10", ["path.c", "string_view.c", "allocator.c"])
    ctx.cc([os.path.join(vlib.HARNESS, "std_path_c10.cpp")], ctx.path("std_path_c10"), cxx=True, sanitize=False)
    exe = os.path.join(vlib.OCAML_BUILD, "drv_c10")
    srcs = [os.path.join(vlib.COQ, f) for f in ("PathDecSpec.v", "PathDecModel.v", "ExtractC10.v")] + \
           [os.path.join(vlib.VERIF, "ocaml", "drv_c10.ml")]
    if _stale(exe, srcs):
        rc, out, err = vlib.sh([os.path.join(vlib.VERIF, "tools", "build_models.sh"), "C10"], timeout=900)
        if rc != 0:
            raise vlib.BuildError("model build failed: " + (out + err)[-1500:])
    ctx.c10_oracle = {"compared": 0, "disagreements": 0}


def enum(alpha, lo, hi):
    for n in range(lo, hi + 1):
        for t in itertools.product(alpha, repeat=n):
            yield P(t)


def rand_cases(r, count, maxlen):
    out = []
    alphabets = [
        [0x2f, 0x2e, 0x61],
        [0x2f, 0x2f, 0x2e, 0x2e, 0x61, 0x62, 0x2d, 0x20, 0x5c, 0x3a],
        [0x2f, 0x2e] + list(range(1, 256)),
        [0x2f] * 40 + [0x2e] * 40 + list(range(1, 256)),
    ]
    for _ in range(count):
        a = r.choice(alphabets)
        n = r.choice([r.randint(8, 16), r.randint(8, 40), r.randint(8, maxlen)])
        out.append(P([r.choice(a) for _ in range(n)]))
    return out


def patterns():
    """separator runs x names built from dots: the arrangements the scanners branch on"""
    names = [b"", b"a", b".", b"..", b"...", b".a", b"a.", b"..a", b"a..", b".a.", b"a.b", b".a.b", b"a.b.c", b"a..b",
             b"ab", b"\xff", b"\x01."]
    runs = [b"", b"/", b"//", b"///"]
    out = []
    for lead in runs:
        for n1 in names:
            for mid in runs[1:]:
                for n2 in names:
                    for trail in runs:
                        out.append(P(lead + n1 + mid + n2 + trail))
            for trail in runs:
                out.append(P(lead + n1 + trail))
    for k in (5, 17, 64):
        out.append(P(b"/" * k))
        out.append(P(b"/" * k + b"a"))
        out.append(P(b"a" + b"/" * k))
        out.append(P(b"." * k))
        out.append(P(b"a" * k + b"." + b"b" * k))
    return out


def gen(ctx, seed, tier):
    r = ctx.rng("gen", seed)
    if seed != ctx.seed:                      # extra seeds of the search: the random part only
        return rand_cases(r, 4000, 300)
    cases = ["N"]
    if tier == "thorough":
        cases += list(enum(ALPHA4, 0, 10))
        cases += list(enum(ALPHA3, 11, 11))
        cases += patterns()
        cases += rand_cases(r, 20000, 300)
    else:
        cases += list(enum(ALPHA4, 0, 7))
        cases += patterns()
        cases += rand_cases(r, 2000, 300)
    return cases


def targeted(ctx):
    return ["N"] + patterns() + list(enum(ALPHA3, 0, 8))


def corpus(ctx):
    p = os.path.join(vlib.VERIF, "corpus", "C10.txt")
    if not os.path.exists(p):
        return []
    return [l.strip() for l in open(p) if l.strip() and not l.startswith("#")]


def run_impl(ctx, cases):
    """the driver flushes every completed line, so after a crash (ASan/UBSan report, signal) the number of
    lines received tells which case was being processed; that case gets a CRASH line and the run resumes
    behind it (at most 100 times, then the rest is marked)"""
    res = []
    rest = list(cases)
    restarts = 0
    while rest:
        rc, out, err = ctx.run_lines([ctx.path("drv_c10")], rest, timeout=1200)
        if rc == 0 and len(out) == len(rest):
            res += out
            break
        out = out[:len(rest)]
        first = ""
        for l in err.strip().split("\n"):
            if "ERROR" in l or "runtime error" in l:
                first = " ".join(l.strip().split()[:4])
                first = first.replace("==%s==" % first.split("==")[1], "") if first.count("==") >= 2 else first
                break
        crash = "CRASH rc=%d %s" % (rc, first[:120].strip())
        res += out
        restarts += 1
        if len(out) >= len(rest) or restarts > 100:
            res += [crash] * (len(rest) - len(out))
            break
        res.append(crash)
        rest = rest[len(out) + 1:]
    return res


def _oracle(ctx, cases, spec):
    """validate the Coq spec lines against libstdc++ on these cases"""
    rc, out, err = ctx.run_lines([ctx.path("std_path_c10")], cases, timeout=1200)
    if rc != 0 or len(out) != len(cases):
        raise RuntimeError("libstdc++ oracle failed rc=%d lines=%d/%d %s" % (rc, len(out), len(cases), err[-300:]))
    bad = [i for i in range(len(cases)) if out[i].strip() != spec[i].strip()]
    ctx.c10_oracle["compared"] += len(cases)
    ctx.c10_oracle["disagreements"] += len(bad)
    if bad:
        i = bad[0]
        raise RuntimeError("MACHINERY BUG: Coq spec (PathDecSpec.v) disagrees with libstdc++ on %d cases; first %s: "
                           "spec '%s' libstdc++ '%s'" % (len(bad), cases[i], spec[i], out[i]))


def run_model(ctx, cases):
    ms, ss = ctx.run_model("drv_c10", cases, timeout=1200)
    if len(cases) >= 50:
        if ctx.tier == "thorough":
            sample = list(range(len(cases)))
        else:
            r = ctx.rng("oracle", len(cases))
            sample = sorted(r.sample(range(len(cases)), min(len(cases), 6000)))
        _oracle(ctx, [cases[i] for i in sample], [ss[i] for i in sample])
    return ms, ss


def nontrivial(c):
    b = bytes_of(c)
    return (b"/" in b) or (b"." in b)


def tokens(case):
    if case == "N":
        return ["N"]
    return ["%02x" % b for b in bytes_of(case)]


def untokens(toks):
    if toks == ["N"]:
        return "N"
    return "P " + ("".join(toks) or "-")


def stats(cases, impl):
    d = {"null_cases": 0, "rooted": 0, "trailing_separator": 0, "with_dot": 0, "multi_separator_run": 0,
         "len_le_7": 0, "len_8_16": 0, "len_gt_16": 0, "non_ascii": 0}
    for c in cases:
        if c == "N":
            d["null_cases"] += 1
            continue
        b = bytes_of(c)
        d["rooted"] += b.startswith(b"/")
        d["trailing_separator"] += b.endswith(b"/")
        d["with_dot"] += b"." in b
        d["multi_separator_run"] += b"//" in b
        d["non_ascii"] += any(x > 127 for x in b)
        n = len(b)
        d["len_le_7" if n <= 7 else ("len_8_16" if n <= 16 else "len_gt_16")] += 1
    # how often each result is non-empty on the implementation (branch coverage of the scanners)
    names = ["rd", "rp", "rel", "par", "fn", "st", "ex"]
    for n in names:
        d["impl_nonempty_" + n] = 0
    for l in impl:
        for t in vlib.obs(l).split():
            k, _, v = t.partition("=")
            if k in names and v != "-":
                d["impl_nonempty_" + k] += 1
    # which branch of the scanners each case took, read off the implementation's views
    br = {"parent_is_root": 0, "parent_general": 0, "parent_empty": 0, "filename_empty_trailing_sep": 0,
          "stem_is_whole_name_with_dot": 0, "stem_cut_at_last_dot": 0}
    for c, l in zip(cases, impl):
        if c == "N" or " || " not in l:
            continue
        o = dict(t.split("=", 1) for t in vlib.obs(l).split())
        s = dict(t.split("=", 1) for t in l.split(" || ")[1].split())
        b = bytes_of(c)
        if s.get("par") == s.get("rp") and o.get("rp") != "-":
            br["parent_is_root"] += 1
        elif o.get("par") == "-":
            br["parent_empty"] += 1
        else:
            br["parent_general"] += 1
        if o.get("fn") == "-" and b.endswith(b"/") and b.strip(b"/"):
            br["filename_empty_trailing_sep"] += 1
        if o.get("fn") != "-" and o.get("ex") == "-" and "2e" in [o["fn"][i:i + 2] for i in range(0, len(o["fn"]), 2)]:
            br["stem_is_whole_name_with_dot"] += 1
        if o.get("ex") not in ("-", None):
            br["stem_cut_at_last_dot"] += 1
    d["branches"] = br
    return d


def check(ctx):
    rc = vlib.standard_check(ctx, __import__("props.c10", fromlist=["c10"]))
    # record the spec-vs-libstdc++ validation in the evidence
    import json
    p = os.path.join(vlib.VERIF, "evidence", "C10.json")
    try:
        ev = json.load(open(p))
        ev["coverage"]["spec_validated_against_libstdcxx"] = getattr(ctx, "c10_oracle", {})
        json.dump(ev, open(p, "w"), indent=1)
    except Exception:
        pass
    return rc
