"""C20 — status messages (model regenerated from the source) and string views."""
import os
import re
import subprocess
import sys

import vlib

PROPS = "Properties_C20"
RULE = ("strerror: every int in [-300,300] plus INT_MIN/INT_MAX and random ints; views: all (offset,len) pairs "
        "over generated buffers with NULs (exhaustive for buffer length <= 5 in thorough); non-trivial = "
        "status inside the enum, or a view pair with equal lengths")
ASSUMPTIONS = [
    "translator tools/translate_status.py (regex over the enum and the switch) is trusted for the proof; it is "
    "cross-checked on every run by comparing the real zix_strerror with the regenerated model on 600+ integers",
    "string views: memory is a flat byte list; distinct buffers are modelled as disjoint ranges of it",
]


def REGEN(ctx):
    rc = subprocess.run([sys.executable, os.path.join(vlib.VERIF, "tools", "translate_status.py")],
                        capture_output=True, text=True)
    if rc.returncode != 0:
        ctx.broken.append("translator:" + rc.stderr.strip()[:300])
        # keep the stale table out of the way so the theorem is not re-checked against old code
        raise_path = os.path.join(vlib.COQ, "gen", "StatusTable.v")
        if os.path.exists(raise_path):
            os.remove(raise_path)


def build(ctx):
    ctx.build_driver("drv_c20", ["status.c", "string_view.c", "allocator.c"], flags=["-O2"])
    # rebuild the model driver from the regenerated table so that impl==model checks the translator too
    ctx.c20_fallback = False
    if not os.path.exists(os.path.join(vlib.COQ, "gen", "StatusTable.v")):
        ctx.c20_fallback = True     # translator refused: no model; the search uses the header directly
        return
    rc, out, err = vlib.sh([os.path.join(vlib.VERIF, "tools", "build_models.sh"), "C20"], timeout=600)
    if rc != 0:
        ctx.c20_fallback = True
        ctx.broken.append("model-build:" + (out + err)[-300:])


def gen(ctx, seed, tier):
    r = ctx.rng("gen", seed)
    cases = ["E %d" % i for i in range(-300, 301)] + ["E %d" % v for v in (-2**31, 2**31 - 1, 1 << 20, -(1 << 20))]
    cases += ["E %d" % r.randint(-2**31, 2**31 - 1) for _ in range(40)]
    maxlen = 5 if tier == "thorough" else 4
    alphabet = [0, 97, 98]
    # exhaustive small buffers: two halves so equal content at different addresses occurs
    bufs = set()
    for n in range(0, maxlen + 1):
        for _ in range(30 if tier == "quick" else 200):
            bufs.add(tuple(r.choice(alphabet) for _ in range(n)))
    for half in [(97,), (97, 0), (0, 0), (97, 98, 0), (97, 0, 98)]:
        bufs.add(half + half)
        bufs.add(half + half[:-1] + (99,))
    for b in sorted(bufs):
        n = len(b)
        hexs = "".join("%02x" % x for x in b) or "-"
        views = [(o, l) for o in range(n + 1) for l in range(n - o + 1)]
        for (o1, l1) in views:
            for (o2, l2) in views:
                if l1 == l2 or r.random() < 0.15:
                    cases.append("V %s %d %d %d %d" % (hexs, o1, l1, o2, l2))
    # longer views (no length is special: word-sized strides, tails): two copies of n bytes in one buffer,
    # equal or differing in exactly one position, at every position, also from an odd start offset
    longv = []
    for n in range(7, 41 if tier == "quick" else 73):
        base = [r.randint(0, 255) for _ in range(n)]
        for p in [None] + list(range(n)):
            other = list(base)
            if p is not None:
                other[p] = (other[p] + r.choice([1, 0x20, 0x80, 255])) % 256
            for pad in ((0,) if (tier == "quick" and n % 3) else (0, 1, 3)):
                buf = [7] * pad + base + [9] * pad + other
                longv.append("V %s %d %d %d %d" % ("".join("%02x" % x for x in buf), pad, n, pad + n + pad, n))
    # rewritten-bytes probe: same view values, bytes changed between two calls (stale-answer detection)
    probes = []
    for b in sorted(bufs):
        n = len(b)
        if n < 2:
            continue
        for _ in range(3):
            b2 = tuple(r.choice(alphabet) for _ in range(n))
            l = r.randint(1, n // 2)
            o1, o2 = 0, r.randint(l, n - l) if n - l >= l else 0
            if o1 == o2:
                continue
            h1 = "".join("%02x" % x for x in b)
            h2 = "".join("%02x" % x for x in b2)
            probes.append("W %s %s %d %d %d %d" % (h1, h2, o1, l, o2, l))
    # guaranteed flips: equal -> different and different -> equal
    probes += ["W 61626162 61626163 0 2 2 2", "W 61626163 61626162 0 2 2 2", "W 0000 0001 0 1 1 1", "W 6100 6161 0 1 1 1"]
    if tier == "quick" and len(cases) > 9000:
        head = cases[:645]
        rest = cases[645:]
        r.shuffle(rest)
        cases = head + rest[:8000]
    return cases + longv + probes


def run_impl(ctx, cases):
    """a case that aborts the driver (ASan/UBSan) gets a CRASH line; the run resumes after it"""
    out, todo = [], list(cases)
    while todo:
        rc, res, err = ctx.run_lines([ctx.path("drv_c20")], todo)
        out += res[:len(todo)]
        if rc == 0 and len(res) >= len(todo):
            break
        done = len(res)
        if done >= len(todo):
            break
        first = [l for l in err.split("\n") if "ERROR" in l or "runtime error" in l][:1]
        out.append("CRASH rc=%d %s" % (rc, first[0].strip()[:160] if first else ""))
        todo = todo[done + 1:]
    return out


def run_model(ctx, cases):
    if not getattr(ctx, "c20_fallback", False):
        return ctx.run_model("drv_c20", cases)
    # no regenerated model available: spec evaluated directly from the header (search only)
    sys.path.insert(0, os.path.join(vlib.VERIF, "tools"))
    import translate_status as ts
    try:
        enum = {v: d for (_, v, d) in ts.parse_enum(open(os.path.join(vlib.REPO, "include/zix/status.h")).read())}
    except ts.Refuse:
        enum = None
    ms, ss = [], []
    for c in cases:
        t = c.split()
        ms.append("<model unavailable>")
        if t[0] == "E":
            ss.append("*" if enum is None else "msg=" + enum.get(int(t[1]), "Unknown error"))
        elif t[0] == "W":
            o1, l1, o2, l2 = map(int, t[3:])
            r = []
            for h in (t[1], t[2]):
                mem = bytes.fromhex(h)
                r.append("true" if mem[o1:o1 + l1] == mem[o2:o2 + l2] else "false")
            ss.append("eq1=%s eq2=%s" % tuple(r))
        else:
            mem = bytes.fromhex("" if t[1] == "-" else t[1])
            o1, l1, o2, l2 = map(int, t[2:])
            a, b = mem[o1:o1 + l1], mem[o2:o2 + l2]
            ss.append("eq=%s copy=%s" % ("true" if a == b else "false", (a + b"\0").hex()))
    return ms, ss


def nontrivial(c):
    t = c.split()
    if t[0] == "E":
        return 0 <= int(t[1]) < 14
    if t[0] == "W":
        return True
    return t[3] == t[5] and t[3] != "0"


def well_formed(msg):
    return bool(msg) and msg[0].isupper() and not msg.endswith(".") and not re.search(r"[.!?]", msg)


def l1_extra(case, impl_obs):
    """the part of the spec that is a predicate on the implementation's own output"""
    if case.startswith("E "):
        return well_formed(impl_obs[4:])
    return "ALIASED" not in impl_obs


def stats(cases, impl):
    return {"strerror_cases": sum(c.startswith("E") for c in cases),
            "view_cases": sum(c.startswith("V") for c in cases),
            "view_equal_true": sum(1 for l in impl if l.startswith("eq=true")),
            "view_equal_false": sum(1 for l in impl if l.startswith("eq=false"))}


def extra_coverage(ctx):
    """thorough tier: independent re-check of the WHOLE development (every Properties_*.vo and what it depends on)
    with coqchk, and the axiom summary it prints"""
    if ctx.tier != "thorough":
        return {}
    whole = vlib.coq_hygiene(None)   # every coq/*.v (scratch files excluded), not only C20's dependencies
    if whole:
        ctx.broken.append("hygiene(whole tree): " + "; ".join(whole[:5]))
        ctx.report_violation({"what": "forbidden construct in the Coq development", "where": whole[:20]}, no_input=True)
    mods = sorted("Zix." + f[:-3] for f in os.listdir(vlib.COQ) if f.startswith("Properties_") and f.endswith(".vo"))
    rc, out, err = vlib.sh(["coqchk", "-o", "-silent", "-Q", ".", "Zix"] + mods, cwd=vlib.COQ, timeout=3000)
    summary = out[out.find("CONTEXT SUMMARY"):] if "CONTEXT SUMMARY" in out else (out + err)[-1500:]
    if rc != 0:
        ctx.broken.append("coqchk: rc=%d %s" % (rc, (out + err)[-300:]))
        ctx.report_violation({"what": "coqchk rejected the compiled development", "log": (out + err)[-3000:]}, no_input=True)
    return {"whole_tree_hygiene": whole or "clean", "coqchk_modules": mods, "coqchk_rc": rc, "coqchk_summary": " ".join(summary.split())[:1500]}
