#!/bin/sh
# usage: tools/mutcheck.sh <ID> <file-relative-to-repo> <sed-expression>   (or: <ID> --patch <diff>)
# Runs check <ID> against a scratch copy of /repo with the mutation applied; prints the verdict and replay summary.
set -e
V=$(cd "$(dirname "$0")/.." && pwd)
ID=$1; shift
M=$(mktemp -d /tmp/zixmut.XXXXXX)
rsync -a --exclude _build /repo/ "$M/"
if [ "$1" = "--patch" ]; then git -C "$M" apply "$2"; else sed -i "$2" "$M/$1"; fi
git -C "$M" diff --stat | tail -1
cd "$V"
before=$(ls replays | wc -l)
ZIX_REPO="$M" VERIF_NO_EVIDENCE=1 python3 tools/check.py "$ID" 2>&1 | grep -E "VIOLATION|KNOWN-FINDING|: OK|FAILED" || true
python3 - "$ID" <<'PY'
import json,glob,sys,os
for f in sorted(glob.glob('replays/%s-*.json'%sys.argv[1])):
    d=json.load(open(f))
    print('   replay:', (d.get('case') or d.get('first_diverging_case') or '')[:160], '|', str(d.get('problems') or d.get('what'))[:200], '| broken:', str(d.get('broken'))[:200])
    os.remove(f)
PY
rm -rf "$M"
