#!/usr/bin/env python3
"""Prepare one round of independently seeded breaking changes.

usage: tools/seed_round.py <round number> [property ids...]
For each property: a detached scratch worktree of /repo at /tmp/seed<r>/<ID> and a task text /tmp/seed<r>/TASK-<ID>.txt that
contains ONLY the property text, the build instructions of the library and the list of changes earlier rounds already produced
(so that the new ones differ in kind).  Nothing from /verif's machinery is given to the agent.  Candidates come back in
/tmp/seed<r>/<ID>/out/{a,b}/ and are confirmed with tools/confirm_seed.py before anything is kept under seeded/."""
import glob
import json
import os
import subprocess
import sys

TMPL = '''You are given a scratch git worktree of the C library drobilla/zix at @WT@ (a checkout of the current HEAD; it is yours alone: work only inside it, never touch /repo or any other directory except @WT@; do NOT use `git stash` - it is shared between worktrees - use `git diff > file` / `git checkout -- .` / `git apply`). The library builds with meson: `cd @WT@ && meson setup build >/dev/null && meson compile -C build && meson test -C build` (offline; baseline: "Ok: 21, Expected Fail: 3, Fail: 0").

Here is a semantic property the library is supposed to satisfy:

@PROPERTY@

YOUR TASK: produce TWO different, independent changes to the library's source (each as its own patch against the pristine HEAD) such that each change
  1. BREAKS the property above (some input / history / schedule / fault within the property's quantifier now violates the statement), and
  2. still compiles without new warnings and still PASSES the existing test suite exactly as before (21 ok, 3 expected fail, 0 fail) - run it, do not guess, and
  3. is REALISTIC: the kind of slip or "optimisation" a maintainer could plausibly commit. No sabotage that ordinary use would expose at once, no dead-code trickery, no dependence on environment variables or time of day.
  4. needs SOMETHING SPECIFIC TO MANIFEST: a particular multi-step sequence of operations, an unusual input shape or size, a fault or interleaving at a particular point, a rarely-taken branch, or two cooperating sites that each look fine alone.
  5. is DIFFERENT IN KIND from these changes, which others already produced for this property (do not redo them or close variants; look for clauses of the property and code paths they leave untouched):
@DONE@
Be inventive: think about integer widths and wrap-around at extreme sizes, boundary values of every comparison, aliasing of arguments, NULL / empty / maximal inputs, rarely taken error paths, ordering of side effects that only matters under a specific fault or interleaving, state left behind by one call that only a later different call observes, helper functions shared by several API entry points, and behaviour that differs only for one build configuration the sources accept (e.g. -DNDEBUG, a different page size) - the demonstration may compile the library sources with such a configuration.

For each change also write a small DEMONSTRATION: a self-contained C (or C++) program or shell script that uses only the library's public API (headers under include/zix), exits 0 on the pristine tree and exits non-zero (with a one-line explanation on stderr) on the changed tree. Give the exact compile command (compile the needed src/*.c files directly together with the demo; use the -D flags found in build/compile_commands.json; the important ones are -DZIX_NO_DEFAULT_CONFIG -D_GNU_SOURCE -D_POSIX_C_SOURCE=200809L -D_XOPEN_SOURCE=600 -DHAVE_SEM_TIMEDWAIT -DHAVE_CLOCK_GETTIME -DHAVE_COPY_FILE_RANGE -DHAVE_FILENO -DHAVE_FLOCK -DHAVE_LSTAT -DHAVE_MLOCK -DHAVE_PATHCONF -DHAVE_POSIX_FADVISE -DHAVE_POSIX_MEMALIGN -DHAVE_REALPATH -DHAVE_SYSCONF -DZIX_INTERNAL -DZIX_STATIC, -I include -I src, -pthread; fault injection via -Wl,--wrap=<libc function> or a custom ZixAllocator is fine; temporary files under a fresh mkdtemp directory in /tmp that the demo removes; keep real waiting under two seconds). Verify BOTH directions yourself.

DELIVERABLES in @WT@/out/ (create it): for change N in {a, b}: out/N/patch.diff (`git diff` against HEAD), out/N/demo.c (or .cpp/.sh) and out/N/build_and_run.sh (compiles the demo against the sources of the tree given as $1 and runs it; exit code = demo's exit code), out/N/README.md (which part of the property it breaks; what is needed for it to manifest; what you ran and observed). When done leave the worktree's source files pristine (`git checkout -- .`), delete the build directory, keep only out/. Final message: one paragraph per change.
'''


def main():
    rnd = sys.argv[1]
    props = {json.loads(l)["id"]: json.loads(l) for l in open("/verif/properties.jsonl")}
    ids = sys.argv[2:] or sorted(props)
    base = "/tmp/seed%s" % rnd
    os.makedirs(base, exist_ok=True)
    for pid in ids:
        p = props[pid]
        wt = os.path.join(base, pid)
        if not os.path.exists(wt):
            subprocess.run(["git", "-C", "/repo", "worktree", "add", "-q", "--detach", wt, "HEAD"], check=True)
        done = []
        for d in sorted(glob.glob("/verif/seeded/%s-*" % pid)):
            m = json.load(open(os.path.join(d, "meta.json")))
            title = os.path.basename(d).split("-", 2)[2].replace("-", " ")
            rd = os.path.join(d, "README.md")
            if os.path.exists(rd):          # the author's own one-line title says what the change is
                for l in open(rd, errors="replace"):
                    l = l.strip().lstrip("#").strip()
                    if l:
                        title = l.split(":", 1)[1].strip() if ":" in l[:24] else l
                        break
            done.append("     - %s (needs: %s)" % (title[:140], m["needs_to_manifest"][:140]))
        prop = "Property %s: %s\n\nStatement: %s\n\nQuantified over: %s\n\nFiles it is anchored in: %s\n" % (
            p["id"], p["title"], p["statement"], p["quantifier"]["text"], ", ".join(p["anchors"]["files"]))
        open(os.path.join(base, "TASK-%s.txt" % pid), "w").write(
            TMPL.replace("@WT@", wt).replace("@PROPERTY@", prop).replace("@DONE@", "\n".join(done)))
    print("%d task files under %s" % (len(ids), base))


if __name__ == "__main__":
    main()
