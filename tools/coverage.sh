#!/bin/sh
# Line/branch coverage of /repo/src by the quick-tier correspondence runs of all checks (diagnostic: lines the
# generated cases never execute are places where the tie between model and code is not exercised).
# usage: tools/coverage.sh [ID ...]    -> coverage/summary.txt, coverage/<file>.gcov-style report via gcovr
set -e
cd "$(dirname "$0")/.."
ids="$*"; [ -n "$ids" ] || ids="C01 C02 C03 C05 C06 C07 C08 C09 C10 C11 C12 C13 C14 C15 C16 C17 C18 C19 C20"
rm -rf .work/cov; mkdir -p coverage
for id in $ids; do
  VERIF_COVERAGE=1 VERIF_KEEP=1 VERIF_NO_EVIDENCE=1 python3 tools/check.py $id >/dev/null 2>&1 || echo "$id: check returned non-zero under coverage build (ignored)"
done
gcovr -r /repo --object-directory .work .work --filter '/repo/src/' --txt coverage/summary.txt --branches --txt-metric line 2>/dev/null || gcovr -r /repo .work --filter '/repo/src/' -o coverage/summary.txt
gcovr -r /repo .work --filter '/repo/src/' --txt-metric branch -o coverage/branches.txt 2>/dev/null || true
cat coverage/summary.txt | tail -30
rm -rf .work/C*.* 
