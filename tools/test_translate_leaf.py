#!/usr/bin/env python3
"""Self-test of tools/translate_leaf.py: a C file exercising the fragment (wrap-around, narrow types, signed
comparisons, casts, struct fields, if/else chains, calls of other leaf functions, file-scope constants) is translated,
and the Gallina definitions (evaluated by coqc, vm_compute) are compared with the compiled C functions on 60 argument
tuples each (boundary values and random).  Exit status 0 iff every value agrees.  Not part of any check; run by hand
after changing the translator."""
import os
import random
import re
import subprocess
import sys
import tempfile

sys.path.insert(0, os.path.dirname(os.path.abspath(__file__)))
WORK = tempfile.mkdtemp(prefix="leaftest")
os.environ["ZIX_REPO"] = WORK
os.environ["LEAF_GEN_DIR"] = WORK
import translate_leaf as T  # noqa: E402

C_SOURCE = r"""
#include <stdint.h>
#include <stdbool.h>
#include <stddef.h>
struct S { uint8_t a; uint16_t b; int32_t c; uint64_t d; };
static const uint32_t K = 0x9E3779B9U;
uint32_t f1(uint32_t x, uint8_t y) { x += y; x <<= 3; x ^= K; x -= 7U; return -x; }
uint8_t f2(uint8_t x) { x++; x++; x >>= 1; return x; }
uint16_t f3(uint16_t x, uint16_t y) { return (uint16_t)(x > y ? x : y); }
bool f4(int a, unsigned b) { return a < 0 || (unsigned)a < b; }
uint64_t f5(const struct S* s, uint32_t z) { if (s->a > 3) { return s->d / (z | 1U); } else if (s->c < -1) { return ~s->d; } return (uint64_t)s->b % 7U; }
uint32_t f6(uint32_t x) { uint32_t r = x; if (x & 1U) { r *= 3U; r++; } else { r >>= 1; } return r; }
size_t f7(size_t n) { return n / 2U + n / 8U - (size_t)(n == 0); }
int64_t f8(int64_t a, int32_t b) { return a > b ? a : (int64_t)b; }
uint32_t f9(uint64_t x) { return (uint32_t)(x >> 32) ^ (uint32_t)x; }
bool f10(char c) { return !(c >= 'a' && c <= 'z') && c != 0; }
uint32_t f11(uint32_t x) { return f6(f6(x)) + (f10((char)1) ? 1U : 0U); }
"""
T.REPO = WORK
open(os.path.join(WORK, "t.c"), "w").write(C_SOURCE)
u=T.clang_ast("t.c")
known={}; out=["From Coq Require Import ZArith Bool List.","Local Open Scope Z_scope."]
names=["f1","f2","f3","f4","f5","f6","f7","f8","f9","f10","f11"]
leafs={}
for n in names:
    try:
        l=T.translate_function(u,known,n); known[n]=l; leafs[n]=l; out+=T.emit_leaf(l,"t.c")
    except T.Refuse as e: print("REFUSED",n,e)
try:
    l=T.translate_function(u,known,"f11"); print("f11", l.body)
except T.Refuse as e: print("REFUSED f11",e)
r=random.Random(1)
def rnd(t):
    c=r.random()
    lo,hi=(-(2**(t.width-1)),2**(t.width-1)-1) if t.signed else (0,2**t.width-1)
    if t.kind=="bool": return r.choice([0,1])
    if c<0.3: return r.choice([lo,hi,0,1,max(lo,-1),hi-1,min(hi,255),min(hi,127),min(hi,128)])
    if c<0.6: return r.randint(max(lo,-300),min(hi,300))
    return r.randint(lo,hi)
cases={}
cmain=['#include <stdio.h>','#include "t.c"','int main(void){']
for n,l in leafs.items():
    cases[n]=[[rnd(t) for (_,t) in l.params] for _ in range(60)]
    for i,args in enumerate(cases[n]):
        coqargs=" ".join("(%d)"%a for a in args)
        res = "Z.b2z (leaf_%s %s)"%(n,coqargs) if l.ret_bool else "leaf_%s %s"%(n,coqargs)
        out.append("Eval vm_compute in (%s)." % res)
        if n=="f5":
            a,b,c,d,z=args  # order of field first read: a d c b? print below
        # C call
    print(n,[p for p,_ in l.params])
open(os.path.join(WORK, "T.v"), "w").write("\n".join(out)+"\n")
# C side, written per function by hand using param order
def carg(v,t):
    if t.kind=="bool": return str(v)
    suf = "" if t.signed else "U"
    if t.width==64: suf = "LL" if t.signed else "ULL"
    if t.signed and v==-(2**(t.width-1)): return "(%d%s-1)"%(v+1,suf)
    return "%d%s"%(v,suf)
for n,l in leafs.items():
    for args in cases[n]:
        if n=="f5":
            m={p:carg(v,t) for (p,t),v in zip(l.params,args)}
            cmain.append('{struct S s={.a=%s,.b=%s,.c=%s,.d=%s}; printf("%%llu\\n",(unsigned long long)f5(&s,%s));}'%(m["s_a"],m["s_b"],m["s_c"],m["s_d"],m["z"]))
        else:
            call="%s(%s)"%(n,",".join(carg(v,t) for (p,t),v in zip(l.params,args)))
            if n=="f8": cmain.append('printf("%%lld\\n",(long long)%s);'%call)
            else: cmain.append('printf("%%llu\\n",(unsigned long long)%s);'%call)
cmain.append("return 0;}")
open(os.path.join(WORK, "m.c"), "w").write("\n".join(cmain))
subprocess.run(["gcc", "-w", "-o", "m", "m.c"], check=True, cwd=WORK)
cout=subprocess.run(["./m"], capture_output=True, text=True, cwd=WORK).stdout.split()
q=subprocess.run(["coqc", "T.v"], capture_output=True, text=True, cwd=WORK)
if q.returncode: print(q.stderr[:2000])
vout=re.findall(r"= (-?\d+)",q.stdout)
print(len(cout),len(vout), "mismatches:", sum(1 for a,b in zip(cout,vout) if a!=b))
i=0
for n,l in leafs.items():
    for args in cases[n]:
        if cout[i]!=vout[i]: print("DIFF",n,args,cout[i],vout[i])
        i+=1

import shutil  # noqa: E402
shutil.rmtree(WORK, ignore_errors=True)
sys.exit(0 if len(cout) == len(vout) and all(a == b for a, b in zip(cout, vout)) else 1)
