#!/usr/bin/env python3
"""Entry point: python3 tools/check.py <Cxx> [--tier quick|thorough] [--replay file]"""
import argparse
import importlib
import os
import sys
import traceback

sys.path.insert(0, os.path.dirname(os.path.abspath(__file__)))
import vlib  # noqa: E402


def main():
    ap = argparse.ArgumentParser()
    ap.add_argument("pid")
    ap.add_argument("--tier", default=os.environ.get("VERIF_TIER", "quick"), choices=["quick", "thorough"])
    ap.add_argument("--replay")
    a = ap.parse_args()
    seed = int(os.environ.get("VERIF_SEED", "1") or 1)
    os.chdir(vlib.VERIF)
    plug = importlib.import_module("props." + a.pid.lower())
    ctx = vlib.Ctx(a.pid, a.tier, seed)
    try:
        if not a.replay:
            # promises made to every caller's optimiser by the public declarations (pure/const/malloc attributes)
            import json
            import api_attrs
            anchors = [json.loads(l) for l in open(os.path.join(vlib.VERIF, "properties.jsonl"))]
            files = next((p["anchors"]["files"] for p in anchors if p["id"] == a.pid), [])
            for prob in api_attrs.problems(vlib.REPO, files):
                ctx.broken.append("api-attribute: " + prob)
                ctx.notes.append("declaration promises more than recorded for the pinned tree: " + prob)
        if a.replay:
            rc = vlib.replay(ctx, plug, a.replay) if not hasattr(plug, "replay") else plug.replay(ctx, a.replay)
        elif hasattr(plug, "check"):
            rc = plug.check(ctx)
        else:
            rc = vlib.standard_check(ctx, plug)
    except Exception as e:  # machinery failure: never silently pass
        traceback.print_exc()
        ctx.broken.append("machinery:" + repr(e)[:300])
        ctx.report_violation({"what": "check machinery failed", "error": repr(e)[:2000]}, no_input=True)
        try:
            ctx.write_evidence({"evaluations": 0, "distinct_nontrivial": 0, "rule": "machinery failure", "samples": []})
        except Exception:
            pass
        rc = 1
    finally:
        ctx.cleanup()
    print("%s: %s (%.1fs)" % (a.pid, "OK" if rc == 0 else "FAILED", __import__("time").time() - ctx.t0))
    sys.exit(rc)


if __name__ == "__main__":
    main()
