#!/usr/bin/env python3
"""Entry point: python3 tools/check.py <Cxx> [--tier quick|thorough] [--replay file]"""
import argparse
import importlib
import os
import sys
import traceback

sys.path.insert(0, os.path.dirname(os.path.abspath(__file__)))
import vlib  # noqa: E402


PURITY_GROUPS = {"C01": ["btree"], "C02": ["btree"], "C03": ["hash"], "C04": ["ring"], "C05": ["ring"], "C06": ["tree"],
                 "C07": ["btree", "hash", "tree", "ring"], "C08": ["btree", "hash", "tree", "ring"], "C17": ["sem"],
                 "C18": ["thread"], "C11": ["normal"], "C12": ["join"], "C16": ["env"], "C15": ["fs"]}
PURITY_SRC = ["hash.c", "tree.c", "btree.c", "ring.c", "allocator.c", "status.c", "errno_status.c", "system.c",
              "posix/sem_posix.c", "posix/thread_posix.c", "posix/system_posix.c", "path.c", "string_view.c", "filesystem.c",
              "posix/filesystem_posix.c", "posix/environment_posix.c"]


def purity_probes(ctx, only=None):
    """harness/purity_probe.c at -O2 against /repo's headers and sources: a declaration that promises the optimiser
    more than the function keeps (pure/const on a function that reads mutable state or has an effect) shows as a
    stale answer or a dropped call.  Returns the list of (probe name, verdict) lines."""
    groups = PURITY_GROUPS.get(ctx.pid, [])
    if not groups:
        return []
    exe = ctx.path("purity_probe")
    ctx.cc([os.path.join(vlib.HARNESS, "purity_probe.c")] + ctx.repo_src(*PURITY_SRC), exe,
           flags=["-O2", "-DNDEBUG"], sanitize=False)
    rc, out, err = ctx.run_lines([exe] + groups, [], timeout=120)
    res = [tuple(l.rsplit(" ", 1)) for l in out if " " in l]
    if rc != 0:
        res.append(("purity_probe(exit status %d)" % rc, "STALE"))
    return [x for x in res if only is None or x[0] == only]


def main():
    ap = argparse.ArgumentParser()
    ap.add_argument("pid")
    ap.add_argument("--tier", default=os.environ.get("VERIF_TIER", "quick"), choices=["quick", "thorough"])
    ap.add_argument("--replay")
    a = ap.parse_args()
    seed = int(os.environ.get("VERIF_SEED", "1") or 1)
    os.chdir(vlib.VERIF)
    plug = importlib.import_module("props." + a.pid.lower())
    ctx = vlib.Ctx(a.pid, a.tier, seed)
    try:
        if not a.replay:
            # promises made to every caller's optimiser by the public declarations (pure/const/malloc attributes)
            import json
            import api_attrs
            anchors = [json.loads(l) for l in open(os.path.join(vlib.VERIF, "properties.jsonl"))]
            files = next((p["anchors"]["files"] for p in anchors if p["id"] == a.pid), [])
            for prob in api_attrs.problems(vlib.REPO, files):
                ctx.broken.append("api-attribute: " + prob)
                ctx.notes.append("declaration promises more than recorded for the pinned tree: " + prob)
            try:
                pr = purity_probes(ctx)
                for name, verdict in pr:
                    if verdict == "STALE":
                        ctx.report_violation({"case": "purity-probe " + name,
                                              "what": "an optimised caller (-O2) gets a stale answer from, or loses the effect "
                                                      "of, this call: the declaration in the public header promises the "
                                                      "compiler more than the function keeps",
                                              "replay_cmd": "python3 tools/check.py %s --replay <this file>" % a.pid})
                if pr:
                    ctx.notes.append("purity probes at -O2: %d run, %d stale" % (len(pr), sum(v == "STALE" for _, v in pr)))
            except vlib.BuildError as e:
                ctx.notes.append("purity probe not built (the driver build reports API changes): " + str(e)[-200:])
        if a.replay and str(__import__("json").load(open(a.replay)).get("case", "")).startswith("purity-probe "):
            name = __import__("json").load(open(a.replay))["case"][len("purity-probe "):]
            res = purity_probes(ctx, only=name)
            print(res)
            rc = 1 if any(v == "STALE" for _, v in res) else 0
        elif a.replay:
            rc = vlib.replay(ctx, plug, a.replay) if not hasattr(plug, "replay") else plug.replay(ctx, a.replay)
        elif hasattr(plug, "check"):
            rc = plug.check(ctx)
        else:
            rc = vlib.standard_check(ctx, plug)
    except Exception as e:  # machinery failure: never silently pass
        traceback.print_exc()
        ctx.broken.append("machinery:" + repr(e)[:300])
        ctx.report_violation({"what": "check machinery failed", "error": repr(e)[:2000]}, no_input=True)
        try:
            ctx.write_evidence({"evaluations": 0, "distinct_nontrivial": 0, "rule": "machinery failure", "samples": []})
        except Exception:
            pass
        rc = 1
    finally:
        ctx.cleanup()
    if ctx.violations and not a.replay:
        rc = 1
    print("%s: %s (%.1fs)" % (a.pid, "OK" if rc == 0 else "FAILED", __import__("time").time() - ctx.t0))
    sys.exit(rc)


if __name__ == "__main__":
    main()
