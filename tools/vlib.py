"""Common machinery for the zix property checks (see DESIGN.md section 3).

A check is:  proof step (coqc on Properties_<id>.v, Print Assumptions parsed)
           + build step (compile /repo's working tree + C driver, sanitizers)
           + correspondence (impl == model, "L2") and spec oracle (impl vs spec, "L1")
           + search/shrink when a proof or the correspondence is broken
           + known findings, evidence.
"""
import fcntl
import json
import os
import random
import re
import shutil
import subprocess
import sys
import tempfile
import time

VERIF = os.path.dirname(os.path.dirname(os.path.abspath(__file__)))
REPO = os.environ.get("ZIX_REPO", "/repo")
COQ = os.path.join(VERIF, "coq")
OCAML_BUILD = os.path.join(VERIF, "ocaml", "build")
HARNESS = os.path.join(VERIF, "harness")
GUARD = "ZIX_VERIF"

# flags of /repo/_build/compile_commands.json (meson configuration of the pinned tree)
REPO_DEFS = [
    "-D_FILE_OFFSET_BITS=64", "-DZIX_NO_DEFAULT_CONFIG", "-D_GNU_SOURCE",
    "-D_POSIX_C_SOURCE=200809L", "-D_XOPEN_SOURCE=600", "-DHAVE_SEM_TIMEDWAIT",
    "-DHAVE_CLOCK_GETTIME", "-DHAVE_COPY_FILE_RANGE", "-DHAVE_FILENO", "-DHAVE_FLOCK",
    "-DHAVE_LSTAT", "-DHAVE_MLOCK", "-DHAVE_PATHCONF", "-DHAVE_POSIX_FADVISE",
    "-DHAVE_POSIX_MEMALIGN", "-DHAVE_REALPATH", "-DHAVE_SYSCONF", "-DZIX_INTERNAL",
    "-DZIX_STATIC", "-D" + GUARD,
]
SAN = ["-fsanitize=address,undefined", "-fno-sanitize-recover=all", "-fno-omit-frame-pointer"]

FORBIDDEN = re.compile(
    r"\b(Admitted|admit|Axiom|Axioms|Parameter|Parameters|Conjecture|Admit Obligations|"
    r"Unset Guard Checking|bypass_check|Unset Positivity Checking|Unset Universe Checking|"
    r"native_compute|type-in-type|impredicative-set)\b")


def sh(cmd, timeout=600, cwd=None, stdin=None, env=None, check=False):
    """Run a command, returning (rc, stdout, stderr). rc=124 on timeout."""
    try:
        p = subprocess.run(cmd, cwd=cwd, input=stdin, capture_output=True, text=True,
                           timeout=timeout, env=env, errors="replace")
        rc, out, err = p.returncode, p.stdout, p.stderr
    except subprocess.TimeoutExpired as e:
        rc = 124
        out = e.stdout if isinstance(e.stdout, str) else (e.stdout or b"").decode(errors="replace")
        err = "TIMEOUT after %ss" % timeout
    if check and rc != 0:
        raise RuntimeError("command failed (%d): %s\n%s\n%s" % (rc, " ".join(cmd), out[-4000:], err[-4000:]))
    return rc, out, err


class Violation(Exception):
    pass


class Ctx:
    def __init__(self, pid, tier, seed):
        self.pid = pid
        self.tier = tier
        self.seed = seed
        self.t0 = time.time()
        self.work = os.path.join(VERIF, ".work", "%s.%d" % (pid, os.getpid()))
        shutil.rmtree(self.work, ignore_errors=True)
        os.makedirs(self.work)
        # scratch base of the C drivers: removed afterwards even when a driver crashed mid-case
        self.scratch = tempfile.mkdtemp(prefix="zv.", dir="/tmp")
        os.environ["VERIF_SCRATCH"] = self.scratch
        self.violations = []       # list of dicts (already printed)
        self.known_hits = {}       # finding id -> count of generated cases in its class
        self.notes = []
        self.assumptions = []
        self.coverage = {}
        self.proof = None
        self.broken = []           # names of theorems / correspondences that no longer check
        self.findings = load_findings(pid)
        self.ndebug_too = False    # also build every driver with -DNDEBUG as <out>.ndebug (plug-in attribute NDEBUG_TOO)
        self.variant = ""          # "ndebug": run_lines substitutes the .ndebug build of a driver

    # ---------------------------------------------------------------- util
    def rng(self, *salt):
        return random.Random("%s/%s/%s" % (self.pid, self.seed, "/".join(map(str, salt))))

    def path(self, name):
        return os.path.join(self.work, name)

    def cleanup(self):
        shutil.rmtree(self.scratch, ignore_errors=True)
        if not os.environ.get("VERIF_KEEP"):
            shutil.rmtree(self.work, ignore_errors=True)

    def log(self, msg):
        print("[%s %6.1fs] %s" % (self.pid, time.time() - self.t0, msg), flush=True)

    # ---------------------------------------------------------------- proof step
    def proof_step(self, props_module=None, regen=None, timeout=900):
        """Build coq deps, then freshly compile Properties_<id>.v and parse Print Assumptions.  The regenerated files
        under coq/gen are shared by all runs: if another run (on a different tree) rewrote them between this run's
        regeneration and the end of its fresh compile, the step is repeated."""
        broken0, res = list(self.broken), None
        for _attempt in range(3):
            self.broken = list(broken0)
            res = self._proof_step_once(props_module, regen, timeout)
            if not regen or getattr(self, "_gen_sig", None) == gen_signature():
                break
            self.notes.append("coq/gen was rewritten by a concurrent run during the proof step of %s: step repeated"
                              % (props_module or self.pid))
        return res

    def _proof_step_once(self, props_module=None, regen=None, timeout=900):
        props_module = props_module or ("Properties_%s" % self.pid)
        src = os.path.join(COQ, props_module + ".v")
        res = {"file": "coq/%s.v" % props_module, "theorems": [], "obligations": 0,
               "discharged": 0, "ok": False, "axioms": [], "log": ""}
        text = open(src).read()
        names = re.findall(r"^(?:Theorem|Corollary)\s+([A-Za-z0-9_']+)", text, re.M)
        res["obligations"] = len(names)
        hygiene = coq_hygiene(props_module)
        if hygiene:
            res["log"] = "forbidden constructs: " + "; ".join(hygiene[:5])
            self.proof = res
            self.broken.append("hygiene:" + hygiene[0])
            return res
        with open(os.path.join(COQ, ".lock"), "w") as lk:
            fcntl.flock(lk, fcntl.LOCK_EX)
            if regen:
                regen()
                self._gen_sig = gen_signature()
            sh([sys.executable, os.path.join(VERIF, "tools", "mkcoqproject.py")], check=True)
            rc, out, err = sh(["make", "-j16", props_module + ".vo"], cwd=COQ, timeout=timeout)
        if rc == 0:
            # unconditional fresh compile of the property file itself (outside the lock: its output goes to this
            # run's work directory, so concurrent checks do not wait for each other)
            rc, out, err = sh(["coqc"] + coq_args() + ["-o", os.path.join(self.work, props_module + ".vo"),
                                                       props_module + ".v"], cwd=COQ, timeout=timeout)
        res["log"] = (out + "\n" + err)[-6000:]
        if rc != 0:
            # which theorem failed?  coqc reports 'File "./X.v", line N'
            m = re.search(r'File "\./?%s\.v", line (\d+)' % re.escape(props_module), out + err)
            bad_line = int(m.group(1)) if m else 0
            done = 0
            first_bad = None
            for mm in re.finditer(r"^(?:Theorem|Corollary)\s+([A-Za-z0-9_']+)", text, re.M):
                line = text.count("\n", 0, mm.start()) + 1
                nxt = text.find("\nQed.", mm.start())
                end_line = text.count("\n", 0, nxt) + 2 if nxt >= 0 else line
                if bad_line and end_line < bad_line:
                    done += 1
                elif first_bad is None:
                    first_bad = mm.group(1)
            res["discharged"] = done
            mdep = re.search(r'File "\./?([A-Za-z0-9_/]+)\.v", line (\d+)', out + err)
            self.broken.append("theorem:%s" % (first_bad if (m and first_bad) else
                                               ("%s.v:%s" % (mdep.group(1), mdep.group(2)) if mdep else props_module)))
            self.proof = res
            return res
        # parse Print Assumptions output: one block per theorem in file order
        blocks = re.split(r"(?=Closed under the global context|^Axioms:)", out, flags=re.M)
        blocks = [b for b in blocks if b.startswith("Closed under") or b.startswith("Axioms:")]
        printed = [q.split(".")[-1] for q in re.findall(r"^Print Assumptions\s+([A-Za-z0-9_'.]+)\.\s*$", text, re.M)]
        axioms_all = []
        for i, n in enumerate(printed):
            b = blocks[i] if i < len(blocks) else "?"
            if b.startswith("Closed under"):
                ax = []
            else:
                ax = re.findall(r"^([A-Za-z0-9_.']+)\s*:", b, re.M)
                ax = [a for a in ax if a != "Axioms"]
            axioms_all += ax
            res["theorems"].append({"name": n, "assumptions": ax or "Closed under the global context"})
        missing = [n for n in names if n not in printed]
        if missing:
            res["log"] += "\nmissing Print Assumptions for: " + ",".join(missing)
            self.broken.append("theorem:%s (no Print Assumptions)" % missing[0])
            res["discharged"] = len(names) - len(missing)
        else:
            res["discharged"] = len(names)
            res["ok"] = True
        res["axioms"] = sorted(set(axioms_all))
        self.proof = res
        return res

    # ---------------------------------------------------------------- build step
    def cc(self, sources, out, flags=(), sanitize=True, cxx=False, compiler=None, link=True, timeout=300):
        comp = compiler or ("g++" if cxx else "gcc")
        std = ["-std=c++17"] if cxx else ["-std=gnu11"]
        cmd = [comp] + std + ["-O1", "-g", "-pthread", "-I" + os.path.join(REPO, "include"),
                              "-I" + os.path.join(REPO, "src"), "-I" + HARNESS] + REPO_DEFS
        if sanitize:
            cmd += SAN
        cmd += list(flags)
        if os.environ.get("VERIF_COVERAGE") and comp in ("gcc", "g++"):
            cmd += ["--coverage", "-O0"]      # tools/coverage.sh: which lines of /repo the correspondence exercises
        if not link:
            cmd += ["-c"]
        cmd += ["-o", out] + list(sources)
        rc, o, e = sh(cmd, timeout=timeout)
        if rc != 0:
            raise BuildError("build failed: %s\n%s" % (" ".join(cmd), (o + e)[-3000:]))
        return out

    def repo_src(self, *names):
        return [os.path.join(REPO, "src", n) for n in names]

    def build_driver(self, name, repo_files, flags=(), sanitize=True, extra=(), out=None):
        """Compile harness/<name>.c with the given /repo/src files (from the working tree)."""
        out = out or self.path(name)
        srcs = [os.path.join(HARNESS, name + ".c")] + self.repo_src(*repo_files) + list(extra)
        if self.ndebug_too:
            # the configuration the library is normally built in (assertions compiled out)
            self.cc(srcs, out + ".ndebug", flags=list(flags) + ["-DNDEBUG"], sanitize=sanitize)
        return self.cc(srcs, out, flags=flags, sanitize=sanitize)

    # ---------------------------------------------------------------- running
    def run_lines(self, cmd, lines, timeout=600, env=None):
        """Feed lines on stdin, return (rc, list of stdout lines, stderr)."""
        e = dict(os.environ)
        e.setdefault("ASAN_OPTIONS", "detect_leaks=1:abort_on_error=0:exitcode=99")
        e.setdefault("UBSAN_OPTIONS", "print_stacktrace=1:halt_on_error=1:exitcode=98")
        if env:
            e.update(env)
        if self.variant == "ndebug" and os.path.exists(cmd[0] + ".ndebug"):
            cmd = [cmd[0] + ".ndebug"] + list(cmd[1:])
        rc, out, err = sh(cmd, stdin="\n".join(lines) + "\n", timeout=timeout, env=e)
        return rc, out.split("\n")[:-1] if out.endswith("\n") else out.split("\n"), err

    def run_model(self, driver, lines, args=(), timeout=600):
        """Run ocaml/build/<driver>; it prints 'M <line>' and 'S <line>' per case."""
        exe = os.path.join(OCAML_BUILD, driver)
        if not os.path.exists(exe):
            raise BuildError("model driver %s missing: run `make -C /verif setup`" % exe)
        rc, out, err = self.run_lines([exe] + list(args), lines, timeout=timeout)
        if rc != 0:
            raise BuildError("model driver %s failed rc=%d: %s" % (driver, rc, err[-2000:]))
        ms = [l[2:] for l in out if l.startswith("M ")]
        ss = [l[2:] for l in out if l.startswith("S ")]
        if len(ms) != len(lines) or len(ss) != len(lines):
            raise BuildError("model driver %s: %d cases, %d M lines, %d S lines" % (driver, len(lines), len(ms), len(ss)))
        return ms, ss

    # ---------------------------------------------------------------- verdicts
    def report_violation(self, replay, no_input=False):
        n = len([f for f in os.listdir(os.path.join(VERIF, "replays")) if f.startswith(self.pid + "-")]) + 1
        path = os.path.join("replays", "%s-%d.json" % (self.pid, n))
        replay = dict(replay)
        replay.setdefault("property", self.pid)
        replay.setdefault("seed", self.seed)
        replay.setdefault("tier", self.tier)
        replay["kind"] = "no-failing-input-found" if no_input else "failing-input"
        replay["broken"] = list(self.broken)
        with open(os.path.join(VERIF, path), "w") as f:
            json.dump(replay, f, indent=1)
        line = "VIOLATION property=%s replay=%s" % (self.pid, path)
        if no_input:
            line += " no-failing-input-found"
        print(line, flush=True)
        self.violations.append(replay)

    def known_line(self, fid, what):
        print("KNOWN-FINDING: property=%s %s [%s]" % (self.pid, what, fid), flush=True)

    # ---------------------------------------------------------------- evidence
    def write_evidence(self, coverage, assumptions=None, level="proof"):
        p = self.proof or {}
        cov = {
            "obligations": p.get("obligations", 0),
            "discharged": p.get("discharged", 0),
            "checker_cmd": "make -C coq %s.vo && coqc -Q . Zix %s (Coq 8.16.1 kernel; Print Assumptions per theorem)"
                           % (os.path.basename(p.get("file", "?"))[:-2], p.get("file", "?")),
            "trusted_base": TRUSTED_BASE + ["axioms reported by Print Assumptions: %s" %
                                            (", ".join(p.get("axioms", [])) or "none (all theorems closed under the global context)")],
            "theorems": p.get("theorems", []),
        }
        cov.update(coverage)
        ev = {
            "property_id": self.pid, "tier": self.tier, "seed": self.seed, "level": level,
            "coverage": cov, "assumptions": (assumptions or []) + self.assumptions,
            "wall_s": round(time.time() - self.t0, 2), "violations": len(self.violations),
            "known_findings_seen": self.known_hits, "notes": self.notes,
            "broken": self.broken,
        }
        os.makedirs(os.path.join(VERIF, "evidence"), exist_ok=True)
        if os.environ.get("VERIF_NO_EVIDENCE") or os.path.realpath(REPO) != "/repo":
            return      # runs against a mutated copy (ZIX_REPO=...) never overwrite the evidence of /repo
        with open(os.path.join(VERIF, "evidence", self.pid + ".json"), "w") as f:
            json.dump(ev, f, indent=1)


class BuildError(Exception):
    pass


def regen_errno(ctx):
    """regenerate coq/gen/ErrnoTable.v from /repo/src/errno_status.c (tools/translate_errno.py); on refusal the stale
    table is removed so that no theorem is re-checked against old code"""
    r = subprocess.run([sys.executable, os.path.join(VERIF, "tools", "translate_errno.py")], capture_output=True, text=True)
    if r.returncode != 0:
        ctx.broken.append("translator:" + r.stderr.strip()[:300])
        p = os.path.join(COQ, "gen", "ErrnoTable.v")
        if os.path.exists(p):
            os.remove(p)


def gen_signature():
    """digest of the regenerated Coq sources (coq/gen/*.v)"""
    import hashlib
    h = hashlib.sha256()
    d = os.path.join(COQ, "gen")
    for f in sorted(os.listdir(d)) if os.path.isdir(d) else []:
        if f.endswith(".v"):
            h.update(f.encode())
            h.update(open(os.path.join(d, f), "rb").read())
    return h.hexdigest()


def regen_leaf(ctx, modules=None):
    """regenerate coq/gen/Leaf.v and coq/gen/Constants.v (leaf functions and constants of the C sources translated to
    Gallina by tools/translate_leaf.py).  `modules`: the generated Coq modules (Ring, Digest, Bump, Hash, BTree, Env,
    Path, Copy, Sem) the calling check's Properties_leaf_<x>.v depends on (None: all).  A function or constant that no
    longer fits the translator's fragment is left out of the regenerated file (so the theorem about it cannot be
    re-checked against old code) and reported as `translator:`; if the tool itself fails the stale files are removed."""
    r = subprocess.run([sys.executable, os.path.join(VERIF, "tools", "translate_leaf.py")], capture_output=True, text=True)
    if r.returncode == 0:
        return
    refused = re.findall(r"^translate_leaf: REFUSED (\w+)\.(\S+): (.*)$", r.stderr, re.M)
    if r.returncode == 2 and refused:
        for mod, name, why in refused:
            msg = "translator:leaf %s.%s refused: %s" % (mod, name, why[:200])
            if (modules is None or mod in modules) and msg not in ctx.broken:
                ctx.broken.append(msg)
        return
    msg = "translator:translate_leaf.py failed (rc=%d): %s" % (r.returncode, r.stderr.strip()[-300:])
    if msg not in ctx.broken:
        ctx.broken.append(msg)
    for f in ("Leaf.v", "Constants.v", ".leaf.stamp"):
        p = os.path.join(COQ, "gen", f)
        if os.path.exists(p):
            os.remove(p)


TRUSTED_BASE = [
    "Coq 8.16.1 kernel incl. vm_compute (no native_compute)",
    "extraction to OCaml with ExtrOcamlBasic directives only (bool/option/unit/prod/list/sumbool/sumor mapped to OCaml types; andb/orb/negb/fst/snd inlined); Z/N/nat/positive stay extracted inductives",
    "hand-written OCaml model drivers (parsing/printing), C drivers, Python generators and check.py",
    "gcc 12 + ASan/UBSan building /repo's working tree",
    "correspondence model<->code is differential testing on generated inputs, not proof",
]


def coq_args():
    return ["-Q", ".", "Zix"]


def coq_deps(module):
    """transitive closure of the Zix modules a coq/<module>.v file requires (by its Require lines)"""
    seen, todo = set(), [module]
    while todo:
        m = todo.pop()
        if m in seen:
            continue
        p = os.path.join(COQ, m.replace(".", "/") + ".v")
        if not os.path.exists(p):
            continue
        seen.add(m)
        txt = strip_coq_comments(open(p, errors="replace").read())
        for stmt in re.findall(r"(?:From\s+(Zix(?:\.[A-Za-z0-9_]+)*)\s+)?Require\s+(?:Import\s+|Export\s+)?([^.]*(?:\.[A-Za-z0-9_]+)*[^.]*)\.\s", txt):
            prefix, names = stmt
            for n in names.split():
                if prefix:
                    q = (prefix + "." + n)[len("Zix."):] if prefix != "Zix" else n
                    todo.append(q)
                elif n.startswith("Zix."):
                    todo.append(n[len("Zix."):])
    return sorted(seen)


def coq_hygiene(module=None):
    """forbidden constructs in the files the given Properties module depends on (all coq/*.v when module is None)"""
    bad = []
    if module:
        files = [os.path.join(COQ, m.replace(".", "/") + ".v") for m in coq_deps(module)]
    else:
        files = []
        for root, _, fs in os.walk(COQ):
            files += [os.path.join(root, fn) for fn in fs if fn.endswith(".v") and not fn.startswith("Scratch")]
    for p in files:
        if True:
            txt = open(p, errors="replace").read()
            txt = strip_coq_comments(txt)
            for m in FORBIDDEN.finditer(txt):
                bad.append("%s: %s" % (os.path.relpath(p, VERIF), m.group(0)))
            # Variable/Hypothesis outside a section
            depth = 0
            for line in txt.split("\n"):
                s = line.strip()
                if re.match(r"Section\s+\w+", s):
                    depth += 1
                elif re.match(r"End\s+\w+\s*\.", s) and depth > 0:
                    depth -= 1
                elif depth == 0 and re.match(r"(Variables?|Hypothes[ie]s|Context)\b", s):
                    bad.append("%s: top-level %s" % (os.path.relpath(p, VERIF), s[:40]))
    return bad


def strip_coq_comments(t):
    out, depth, i = [], 0, 0
    while i < len(t):
        if t.startswith("(*", i):
            depth += 1
            i += 2
        elif t.startswith("*)", i) and depth:
            depth -= 1
            i += 2
        else:
            if not depth:
                out.append(t[i])
            i += 1
    return "".join(out)


def load_findings(pid):
    p = os.path.join(VERIF, "known_findings.json")
    if not os.path.exists(p):
        return []
    d = json.load(open(p))
    return [f for f in d.get("findings", []) if f.get("property") == pid and f.get("status") == "known"]


def obs(line):
    return line.split(" || ")[0].strip()


def spec_match(spec_line, impl_obs):
    """spec line may be '*' (unconstrained) or contain '*' tokens matching any token."""
    if spec_line.strip() == "*":
        return True
    a, b = spec_line.split(), impl_obs.split()
    if len(a) != len(b):
        return False
    return all(x == "*" or x == y for x, y in zip(a, b))


def l1_ok(plug, case, impl_line, spec_line):
    # a plug-in may supply its own reading of the spec line for some kinds of case (e.g. C19's build without flock())
    sm = plug.spec_match(case, spec_line, obs(impl_line)) if hasattr(plug, "spec_match") \
        else spec_match(spec_line, obs(impl_line))
    if not sm:
        return False
    if hasattr(plug, "l1_extra"):
        return bool(plug.l1_extra(case, obs(impl_line)))
    return True


def ddmin(tokens, fails, budget=300):
    """Delta debugging on a list of tokens; fails(list)->bool."""
    n = 2
    calls = 0
    while len(tokens) >= 2 and calls < budget:
        chunk = max(1, len(tokens) // n)
        reduced = False
        for i in range(0, len(tokens), chunk):
            cand = tokens[:i] + tokens[i + chunk:]
            calls += 1
            if cand and fails(cand):
                tokens = cand
                n = max(n - 1, 2)
                reduced = True
                break
            if calls >= budget:
                break
        if not reduced:
            if chunk == 1:
                break
            n = min(len(tokens), n * 2)
    return tokens


def standard_check(ctx, plug):
    """Generic flow used by most properties.  `plug` is a module/object with:
       PROPS (coq module name, optional), REGEN(ctx) optional,
       build(ctx), gen(ctx, seed, tier) -> list[str] cases,
       run_impl(ctx, cases) -> list[str], run_model(ctx, cases) -> (model lines, spec lines),
       nontrivial(case) -> bool, classify(case, impl, model, spec) -> finding id | None,
       targeted(ctx) -> list[str] extra cases for the search (optional),
       tokens(case)/untokens(tokens) for shrinking (optional),
       stats(cases) -> dict (optional)."""
    ctx.log("proof step")
    regen = (lambda: plug.REGEN(ctx)) if hasattr(plug, "REGEN") else None
    pr = ctx.proof_step(getattr(plug, "PROPS", None), regen=regen)
    for mod in getattr(plug, "EXTRA_PROPS", []):      # further property files re-checked by this check
        extra = ctx.proof_step(mod, regen=regen)
        pr = {"file": pr["file"] + " + " + extra["file"], "theorems": pr["theorems"] + extra["theorems"],
              "obligations": pr["obligations"] + extra["obligations"], "discharged": pr["discharged"] + extra["discharged"],
              "ok": pr["ok"] and extra["ok"], "axioms": sorted(set(pr["axioms"] + extra["axioms"])),
              "log": pr["log"] + extra["log"]}
        ctx.proof = pr
    ctx.log("proof: %d/%d theorems, ok=%s" % (pr["discharged"], pr["obligations"], pr["ok"]))
    ctx.ndebug_too = bool(getattr(plug, "NDEBUG_TOO", False))
    try:
        plug.build(ctx)
    except BuildError as e:
        ctx.broken.append("build:" + str(e)[:300])
        ctx.report_violation({"what": "the driver no longer builds against /repo's working tree (API or source change); "
                                      "correspondence cannot be checked", "detail": str(e)[-2000:]}, no_input=True)
        ctx.write_evidence({"evaluations": 0, "distinct_nontrivial": 0, "rule": "build failed", "samples": []})
        return 1

    def run_all(cases, label):
        t = time.time()
        impl = plug.run_impl(ctx, cases)
        model, spec = plug.run_model(ctx, cases)
        ctx.log("%s: %d cases in %.1fs" % (label, len(cases), time.time() - t))
        return impl, model, spec

    def judge(cases, impl, model, spec):
        l1, l2 = [], []
        for i, c in enumerate(cases):
            im = impl[i] if i < len(impl) else "<no output>"
            if not l1_ok(plug, c, im, spec[i]):
                l1.append(i)
            if model[i] != "=" and im != model[i]:      # "=": this case has no model line (spec only)
                l2.append(i)
        return l1, l2

    corpus = plug.corpus(ctx) if hasattr(plug, "corpus") else []
    cases = corpus + plug.gen(ctx, ctx.seed, ctx.tier)
    impl, model, spec = run_all(cases, "correspondence")
    l1, l2 = judge(cases, impl, model, spec)

    # second configuration: the same cases (plus any the plug-in reserves for it, e.g. inputs an assertion would
    # reject) against the drivers built with -DNDEBUG; same model and spec lines
    nd = None
    if ctx.ndebug_too:
        ctx.variant = "ndebug"
        extra_n = plug.gen_ndebug(ctx, ctx.seed, ctx.tier) if hasattr(plug, "gen_ndebug") else []
        # cases whose expected outcome is an assertion failure have no meaning in this configuration
        keep = [i for i, c in enumerate(cases) if not hasattr(plug, "ndebug_case") or plug.ndebug_case(c, model[i])]
        limit = getattr(plug, "NDEBUG_SAMPLE", None)       # slow drivers: an evenly spread sample of the cases
        if limit and ctx.tier == "quick" and len(keep) > limit:
            keep = [keep[(j * len(keep)) // limit] for j in range(limit)]
        cases_n = [cases[i] for i in keep] + extra_n
        t_n = time.time()
        impl_n = plug.run_impl(ctx, cases_n)
        model_n, spec_n = [model[i] for i in keep], [spec[i] for i in keep]
        if extra_n:
            m2, s2 = plug.run_model(ctx, extra_n)
            model_n, spec_n = model_n + m2, spec_n + s2
        ctx.variant = ""
        l1_n, l2_n = judge(cases_n, impl_n, model_n, spec_n)
        ctx.log("NDEBUG build: %d cases in %.1fs (%d reserved for it)" % (len(cases_n), time.time() - t_n, len(extra_n)))
        nd = {"cases": cases_n, "impl": impl_n, "model": model_n, "spec": spec_n, "l1": l1_n, "l2": l2_n, "extra": len(extra_n)}
        if l2_n:
            ctx.broken.append("correspondence:%s (NDEBUG build) impl!=model on %d/%d cases (first: case %d)" %
                              (ctx.pid, len(l2_n), len(cases_n), l2_n[0]))

    # classify L1 failures: known finding (same class AND impl == faithful model) or new
    new_l1 = []
    for i in l1:
        fid = plug.classify(cases[i], impl[i], model[i], spec[i]) if hasattr(plug, "classify") else None
        known_ids = [f["id"] for f in ctx.findings]
        if fid and fid in known_ids and impl[i] == model[i]:
            ctx.known_hits[fid] = ctx.known_hits.get(fid, 0) + 1
        else:
            new_l1.append(i)
    l1s = set(l1)
    l2_only = [i for i in l2 if i not in l1s]
    if l2:
        ctx.broken.append("correspondence:%s impl!=model on %d/%d cases (first: case %d)" %
                          (ctx.pid, len(l2), len(cases), l2[0]))

    # known findings: replay each witness
    for f in ctx.findings:
        w = f.get("witness_case")
        if w is None:
            continue
        wi, wm, ws = run_all([w], "witness " + f["id"])
        if not l1_ok(plug, w, wi[0], ws[0]):
            ctx.known_line(f["id"], f["what"])
            ctx.known_hits.setdefault(f["id"], 0)
        else:
            ctx.notes.append("known finding %s no longer reproduces on its witness" % f["id"])

    need_search = bool(ctx.broken)
    fail_case = None
    new_l1_n = []
    if nd:
        for i in nd["l1"]:
            fid = plug.classify(nd["cases"][i], nd["impl"][i], nd["model"][i], nd["spec"][i]) if hasattr(plug, "classify") else None
            if not (fid and fid in [f["id"] for f in ctx.findings] and nd["impl"][i] == nd["model"][i]):
                new_l1_n.append(i)
    if new_l1:
        fail_case = (cases[new_l1[0]], impl[new_l1[0]], model[new_l1[0]], spec[new_l1[0]])
    elif new_l1_n:
        i = new_l1_n[0]
        fail_case = (nd["cases"][i], nd["impl"][i], nd["model"][i], nd["spec"][i])
        ctx.variant = "ndebug"          # shrink and report under the configuration it fails in
    elif need_search:
        ctx.log("broken: %s -> searching for a failing input" % ctx.broken)
        extra = []
        if hasattr(plug, "targeted"):
            extra += plug.targeted(ctx)
        for s in range(1, 5 if ctx.tier == "quick" else 13):
            extra += plug.gen(ctx, ctx.seed * 1000 + s, ctx.tier)
        if extra:
            ei, em, es = run_all(extra, "search")
            e1, _ = judge(extra, ei, em, es)
            for i in e1:
                fid = plug.classify(extra[i], ei[i], em[i], es[i]) if hasattr(plug, "classify") else None
                if fid and fid in [f["id"] for f in ctx.findings] and ei[i] == em[i]:
                    continue
                fail_case = (extra[i], ei[i], em[i], es[i])
                break

    if fail_case:
        c, im, mo, sp = fail_case
        if hasattr(plug, "tokens"):
            def fails(toks):
                cc = plug.untokens(toks)
                try:
                    a = plug.run_impl(ctx, [cc])
                    b, s = plug.run_model(ctx, [cc])
                except Exception:
                    return False
                if l1_ok(plug, cc, a[0], s[0]):
                    return False
                fid = plug.classify(cc, a[0], b[0], s[0]) if hasattr(plug, "classify") else None
                return not (fid and fid in [f["id"] for f in ctx.findings] and a[0] == b[0])
            toks = ddmin(plug.tokens(c), fails)
            c2 = plug.untokens(toks)
            if c2 != c:
                a = plug.run_impl(ctx, [c2])
                b, s = plug.run_model(ctx, [c2])
                c, im, mo, sp = c2, a[0], b[0], s[0]
        ctx.report_violation({"case": c, "impl": im, "model": mo, "spec": sp,
                              "configuration": "sources built with -DNDEBUG" if ctx.variant == "ndebug" else "default",
                              "what": "implementation output contradicts the spec on this input",
                              "replay_cmd": "python3 tools/check.py %s --replay <this file>" % ctx.pid})
    elif need_search:
        first = l2_only[0] if l2_only else (l2[0] if l2 else None)
        rep = {"what": "a theorem or the model/code correspondence no longer checks; the search found no input on which the spec fails",
               "proof_log": (ctx.proof or {}).get("log", "")[-1500:] if not (ctx.proof or {}).get("ok") else ""}
        if first is not None:
            rep.update({"first_diverging_case": cases[first], "impl": impl[first], "model": model[first], "spec": spec[first]})
        elif nd and nd["l2"]:
            i = nd["l2"][0]
            rep.update({"first_diverging_case": nd["cases"][i], "impl": nd["impl"][i], "model": nd["model"][i],
                        "spec": nd["spec"][i], "configuration": "sources built with -DNDEBUG"})
        ctx.report_violation(rep, no_input=True)

    nt = set(c for c in cases if plug.nontrivial(c)) if hasattr(plug, "nontrivial") else set(cases)
    cov = {
        "evaluations": len(cases),
        "distinct_nontrivial": len(nt),
        "rule": getattr(plug, "RULE", "seeded generator; distinct case strings counted"),
        "samples": [{"case": cases[i][:300], "impl": impl[i][:300], "spec": spec[i][:300]}
                    for i in sorted(set([0, len(cases) // 2, len(cases) - 1])) if i < len(cases)],
        "traces_validated_against_impl": len(cases) - len(l2),
        "l1_spec_failures_known": sum(ctx.known_hits.values()),
        "l1_spec_failures_new": len(new_l1),
        "l2_model_mismatches": len(l2),
        "ndebug_build": ({"cases": len(nd["cases"]), "reserved_for_it": nd["extra"], "l1_spec_failures_new": len(new_l1_n),
                          "l2_model_mismatches": len(nd["l2"])} if nd else "not run for this property"),
        "corpus_cases": len(corpus),
    }
    if hasattr(plug, "stats"):
        cov["distribution"] = plug.stats(cases, impl)
    if hasattr(plug, "extra_coverage"):
        cov.update(plug.extra_coverage(ctx) or {})
    ctx.write_evidence(cov, getattr(plug, "ASSUMPTIONS", []))
    return 1 if ctx.violations else 0


def replay(ctx, plug, path):
    r = json.load(open(path))
    c = r.get("case") or r.get("first_diverging_case")
    if c is None:
        print(json.dumps(r, indent=1))
        return 0
    ctx.ndebug_too = bool(getattr(plug, "NDEBUG_TOO", False))
    plug.build(ctx)
    if "NDEBUG" in str(r.get("configuration", "")):
        ctx.variant = "ndebug"
    a = plug.run_impl(ctx, [c])
    m, s = plug.run_model(ctx, [c])
    print("case : %s\nimpl : %s\nmodel: %s\nspec : %s" % (c, a[0], m[0], s[0]))
    ok = l1_ok(plug, c, a[0], s[0])
    print("spec holds on impl: %s ; impl==model: %s" % (ok, a[0] == m[0]))
    return 0 if ok else 1
