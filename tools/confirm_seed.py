#!/usr/bin/env python3
"""Confirm a candidate breaking change produced by an independent agent and store it as seeded/<name>/.

usage: tools/confirm_seed.py <candidate dir with patch.diff, demo.*, build_and_run.sh, README.md> <name> <property> [needs text]
Checks, in scratch copies of /repo outside /repo and /verif:  the patch applies to HEAD; the untouched test suite still
gives the baseline (21 ok + 3 expected fail, 0 fail) with the patch; the demonstration passes without the patch and fails
with it.  Only then is seeded/<name>/ written (patch.diff, demo, build_and_run.sh, README.md, meta.json)."""
import json
import os
import re
import shutil
import subprocess
import sys
import tempfile

V = os.path.dirname(os.path.dirname(os.path.abspath(__file__)))


def sh(cmd, cwd=None, timeout=1200):
    p = subprocess.run(cmd, cwd=cwd, capture_output=True, text=True, timeout=timeout, shell=isinstance(cmd, str))
    return p.returncode, p.stdout + p.stderr


def main():
    cand, name, prop = sys.argv[1:4]
    needs = sys.argv[4] if len(sys.argv) > 4 else ""
    a = tempfile.mkdtemp(prefix="zixseedA.")
    b = tempfile.mkdtemp(prefix="zixseedB.")
    log = {}
    try:
        for d in (a, b):
            subprocess.run(["rsync", "-a", "--exclude", "_build", "--exclude", ".git", "/repo/", d + "/"], check=True)
            subprocess.run(["git", "init", "-q"], cwd=d, check=True)
        rc, out = sh(["git", "apply", os.path.join(os.path.abspath(cand), "patch.diff")], cwd=b)
        if rc:
            print("REJECT: patch does not apply:", out[:300])
            return 1
        rc, out = sh("meson setup build >/dev/null 2>&1 && meson compile -C build 2>&1 | tail -3 && meson test -C build 2>&1 | tail -12", cwd=b)
        m = re.search(r"Ok:\s+(\d+).*?Expected Fail:\s+(\d+).*?Fail:\s+(\d+)", out, re.S)
        log["suite_with_patch"] = " ".join(out.split())[-300:]
        if not m or (int(m.group(1)), int(m.group(2)), int(m.group(3))) != (21, 3, 0):
            print("REJECT: suite with patch is not the baseline:", out[-600:])
            return 1
        shutil.rmtree(os.path.join(b, "build"), ignore_errors=True)
        script = os.path.join(os.path.abspath(cand), "build_and_run.sh")
        rc_a, out_a = sh(["sh", script, a], cwd=os.path.abspath(cand), timeout=900)
        rc_b, out_b = sh(["sh", script, b], cwd=os.path.abspath(cand), timeout=900)
        log["demo_pristine"] = "exit %d %s" % (rc_a, " ".join(out_a.split())[-200:])
        log["demo_patched"] = "exit %d %s" % (rc_b, " ".join(out_b.split())[-300:])
        if rc_a != 0 or rc_b == 0:
            print("REJECT: demo pristine rc=%d patched rc=%d\n%s\n%s" % (rc_a, rc_b, out_a[-400:], out_b[-400:]))
            return 1
        dst = os.path.join(V, "seeded", name)
        shutil.rmtree(dst, ignore_errors=True)
        os.makedirs(dst)
        for f in os.listdir(cand):
            if os.path.isfile(os.path.join(cand, f)) and os.path.getsize(os.path.join(cand, f)) < 200000 \
               and not f.endswith((".o", ".out")) and not os.access(os.path.join(cand, f), os.X_OK) or f.endswith(".sh"):
                shutil.copy(os.path.join(cand, f), dst)
        meta = {"name": name, "property": prop, "source": "independent sub-agent given only the property text and a scratch worktree",
                "needs_to_manifest": needs, "confirmed": log,
                "what_i_ran": "tools/confirm_seed.py: git apply on a scratch copy of /repo HEAD; meson setup/compile/test there "
                              "(baseline 21 ok + 3 expected fail); build_and_run.sh against pristine copy (exit 0) and patched copy (exit != 0)",
                "repo_head": subprocess.check_output(["git", "-C", "/repo", "rev-parse", "--short", "HEAD"]).decode().strip()}
        json.dump(meta, open(os.path.join(dst, "meta.json"), "w"), indent=1)
        print("CONFIRMED -> seeded/%s  (demo patched: %s)" % (name, log["demo_patched"][:160]))
        return 0
    finally:
        shutil.rmtree(a, ignore_errors=True)
        shutil.rmtree(b, ignore_errors=True)


if __name__ == "__main__":
    sys.exit(main())
