#!/usr/bin/env python3
"""usage: tools/import_harmless.py <candidate dir with patch.diff README.md> <name> <property>
Checks the patch applies to /repo HEAD and that the untouched suite still gives the baseline with it, then stores
harmless/<name>/ (patch.diff, README.md, meta.json)."""
import json, os, re, shutil, subprocess, sys, tempfile
V = os.path.dirname(os.path.dirname(os.path.abspath(__file__)))
cand, name, prop = sys.argv[1:4]
b = tempfile.mkdtemp(prefix="zixharmB.")
try:
    subprocess.run(["rsync", "-a", "--exclude", "_build", "--exclude", ".git", "/repo/", b + "/"], check=True)
    subprocess.run(["git", "init", "-q"], cwd=b, check=True)
    r = subprocess.run(["git", "apply", os.path.join(os.path.abspath(cand), "patch.diff")], cwd=b, capture_output=True, text=True)
    if r.returncode:
        print("REJECT: patch does not apply", r.stderr[:200]); sys.exit(1)
    p = subprocess.run("meson setup build >/dev/null 2>&1 && meson compile -C build 2>&1 | tail -3 && meson test -C build 2>&1 | tail -12",
                       cwd=b, shell=True, capture_output=True, text=True)
    m = re.search(r"Ok:\s+(\d+).*?Expected Fail:\s+(\d+).*?Fail:\s+(\d+)", p.stdout, re.S)
    if not m or (int(m.group(1)), int(m.group(2)), int(m.group(3))) != (21, 3, 0):
        print("REJECT: suite not baseline", p.stdout[-400:]); sys.exit(1)
    dst = os.path.join(V, "harmless", name)
    shutil.rmtree(dst, ignore_errors=True); os.makedirs(dst)
    for f in ("patch.diff", "README.md"):
        if os.path.exists(os.path.join(cand, f)):
            shutil.copy(os.path.join(cand, f), dst)
    json.dump({"name": name, "property": prop, "kind": "behaviour-preserving rewrite",
               "source": "independent sub-agent given only the property text and a scratch worktree",
               "confirmed": "patch applies to /repo HEAD; meson test with the patch = 21 ok + 3 expected fail"},
              open(os.path.join(dst, "meta.json"), "w"), indent=1)
    print("IMPORTED -> harmless/%s" % name)
finally:
    shutil.rmtree(b, ignore_errors=True)
