#!/bin/sh
# Extract the Coq models to OCaml (ExtrOcamlBasic only) and build the model drivers.
# usage: tools/build_models.sh [component ...]   (default: every coq/Extract<X>.v)
set -e
cd "$(dirname "$0")/.."
V=$(pwd)
comps="$*"
[ -n "$comps" ] || comps=$(ls coq/Extract*.v | sed 's,coq/Extract\(.*\)\.v,\1,')
mkdir -p ocaml/build
build_one() {
  c=$1; lc=$(echo "$c" | tr 'A-Z' 'a-z')
  # one builder per component at a time (two runs of the same check may both find the driver stale); the driver is
  # replaced atomically, so a run that is using it meanwhile keeps a complete executable
  exec 9>"ocaml/build/.lock.$lc"
  flock 9
  d=ocaml/build/$lc
  rm -rf "$d"; mkdir -p "$d"
  ( cd "$d" && timeout 600 coqc -Q "$V/coq" Zix "$V/coq/Extract$c.v" >extract.log 2>&1 ) || { cat "$d/extract.log"; exit 1; }
  cp ocaml/zutil.ml "$d/"
  [ -f "$d/String.ml" ] && cp ocaml/zstring.ml "$d/" || true
  cp "ocaml/drv_$lc.ml" "$d/"
  ( cd "$d" && ocamlfind ocamlopt -O2 -w -a $(ocamlfind ocamldep -sort *.mli *.ml) -o "drv_$lc.new" >build.log 2>&1 ) || \
  ( cd "$d" && ocamlfind ocamlopt -w -a $(ocamlfind ocamldep -sort *.mli *.ml) -o "drv_$lc.new" >build.log 2>&1 ) || { cat "$d/build.log"; exit 1; }
  mv -f "$d/drv_$lc.new" "ocaml/build/drv_$lc"
  echo "built ocaml/build/drv_$lc"
}
pids=""
for c in $comps; do build_one "$c" & pids="$pids $!"; done
rc=0
for p in $pids; do wait $p || rc=1; done
exit $rc
