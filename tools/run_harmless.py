#!/usr/bin/env python3
"""Run the registered checks against behaviour-preserving rewrites under harmless/<name>/ (patch.diff + meta.json).

A harmless rewrite may legitimately break a proof or the model/code correspondence; the mandated report is then a
VIOLATION line ending in `no-failing-input-found`.  What must NEVER happen is a VIOLATION with a failing input
(that would be a false alarm of the spec oracle).  Verdicts: quiet (exit 0) | tie-broken (no-failing-input-found) |
FALSE-ALARM (failing input reported).
usage: tools/run_harmless.py [name ...]"""
import json
import os
import shutil
import subprocess
import sys
import tempfile

V = os.path.dirname(os.path.dirname(os.path.abspath(__file__)))


def main():
    args = [a for a in sys.argv[1:] if not a.startswith("--")]
    base = os.path.join(V, "harmless")
    names = args or sorted(d for d in os.listdir(base) if os.path.isdir(os.path.join(base, d)))
    rows = []
    for n in names:
        d = os.path.join(base, n)
        meta = json.load(open(os.path.join(d, "meta.json")))
        tmp = tempfile.mkdtemp(prefix="zixharm.")
        try:
            subprocess.run(["rsync", "-a", "--exclude", "_build", "--exclude", ".git", "/repo/", tmp + "/"], check=True)
            subprocess.run(["git", "init", "-q"], cwd=tmp, check=True)
            r = subprocess.run(["git", "apply", os.path.join(d, "patch.diff")], cwd=tmp, capture_output=True, text=True)
            if r.returncode != 0:
                rows.append((n, meta["property"], "PATCH-DOES-NOT-APPLY", r.stderr.strip()[:80]))
                continue
            for pid in [meta["property"]] + meta.get("also", []):
                env = dict(os.environ, ZIX_REPO=tmp, VERIF_NO_EVIDENCE="1")
                p = subprocess.run([sys.executable, "tools/check.py", pid, "--tier", "quick"], cwd=V, env=env,
                                   capture_output=True, text=True, timeout=3600)
                vio = [l for l in p.stdout.split("\n") if l.startswith("VIOLATION")]
                detail = ""
                if not vio and p.returncode == 0:
                    verdict = "quiet"
                elif vio and all(l.rstrip().endswith("no-failing-input-found") for l in vio):
                    verdict = "tie-broken"
                else:
                    verdict = "FALSE-ALARM" if vio else "rc=%d" % p.returncode
                for l in vio:
                    rp = l.split("replay=")[1].split()[0]
                    try:
                        rd = json.load(open(os.path.join(V, rp)))
                        detail = str(rd.get("case") or rd.get("first_diverging_case") or rd.get("what"))[:100] + " | " + str(rd.get("broken"))[:120]
                        if verdict != "FALSE-ALARM" or "--keep-replays" not in sys.argv:
                            os.remove(os.path.join(V, rp))
                    except Exception:
                        pass
                rows.append((n, pid, verdict, detail))
        finally:
            shutil.rmtree(tmp, ignore_errors=True)
    w = max(len(r[0]) for r in rows) if rows else 4
    for r in rows:
        print("%-*s  %-4s  %-11s  %s" % (w, r[0], r[1], r[2], r[3]))
    if not args:
        with open(os.path.join(base, "RESULTS.md"), "w") as f:
            f.write("# Behaviour-preserving rewrites vs. the registered checks (quick tier)\n\nquiet = exit 0; tie-broken = "
                    "`VIOLATION ... no-failing-input-found` (a proof or the model/code correspondence no longer checks, no "
                    "input contradicts the spec); FALSE-ALARM must not occur.\n\n| rewrite | property | verdict | detail |\n|---|---|---|---|\n")
            for r in rows:
                f.write("| %s | %s | %s | %s |\n" % (r[0], r[1], r[2], r[3].replace("|", "/")))
    return 1 if any(r[2] == "FALSE-ALARM" for r in rows) else 0


if __name__ == "__main__":
    sys.exit(main())
