#!/usr/bin/env python3
"""Run the registered checks against every seeded breaking change under seeded/<name>/ (patch.diff + meta.json).

Each change is applied to a scratch copy of /repo (never to /repo itself), the quick check of the property it breaks
(meta.json "property", plus any in "also") is run with ZIX_REPO pointing at the copy, and the verdict is tabulated.
usage: tools/run_seeded.py [name ...] [--tier quick|thorough] [--keep-replays] [--jobs=N]"""
import json
import os
import shutil
import subprocess
import sys
import tempfile

V = os.path.dirname(os.path.dirname(os.path.abspath(__file__)))


def main():
    args = [a for a in sys.argv[1:] if not a.startswith("--")]
    tier = "thorough" if "--tier=thorough" in sys.argv or "thorough" in sys.argv[1:] and "--tier" in sys.argv else "quick"
    names = args or sorted(d for d in os.listdir(os.path.join(V, "seeded")) if os.path.isdir(os.path.join(V, "seeded", d)))
    names = [n for n in names if n != "thorough"]
    jobs = max([int(a.split("=")[1]) for a in sys.argv if a.startswith("--jobs=")] or [1])

    def one(n):
        rows = []
        d = os.path.join(V, "seeded", n)
        meta = json.load(open(os.path.join(d, "meta.json")))
        tmp = tempfile.mkdtemp(prefix="zixseed.")
        try:
            subprocess.run(["rsync", "-a", "--exclude", "_build", "--exclude", ".git", "/repo/", tmp + "/"], check=True)
            subprocess.run(["git", "init", "-q"], cwd=tmp, check=True)
            r = subprocess.run(["git", "apply", os.path.join(d, "patch.diff")], cwd=tmp, capture_output=True, text=True)
            if r.returncode != 0:
                rows.append((n, meta["property"], "PATCH-DOES-NOT-APPLY", r.stderr.strip()[:80]))
                return rows
            for pid in [meta["property"]] + meta.get("also", []):
                env = dict(os.environ, ZIX_REPO=tmp, VERIF_NO_EVIDENCE="1", VERIF_TIER=tier)
                p = subprocess.run([sys.executable, "tools/check.py", pid, "--tier", tier], cwd=V, env=env,
                                   capture_output=True, text=True, timeout=3600)
                vio = [l for l in p.stdout.split("\n") if l.startswith("VIOLATION")]
                verdict = "caught" if (p.returncode == 1 and vio) else ("MISSED" if p.returncode == 0 else "rc=%d" % p.returncode)
                detail = ""
                if vio:
                    detail = "no-failing-input-found" if vio[0].endswith("no-failing-input-found") else "failing input"
                    rp = vio[0].split("replay=")[1].split()[0]
                    try:
                        rd = json.load(open(os.path.join(V, rp)))
                        detail += ": " + str(rd.get("case") or rd.get("first_diverging_case") or rd.get("what"))[:90]
                    except Exception:
                        pass
                    if "--keep-replays" not in sys.argv:
                        for l in vio:
                            try:
                                os.remove(os.path.join(V, l.split("replay=")[1].split()[0]))
                            except OSError:
                                pass
                rows.append((n, pid, verdict, detail))
        finally:
            shutil.rmtree(tmp, ignore_errors=True)
        return rows

    from concurrent.futures import ThreadPoolExecutor
    with ThreadPoolExecutor(jobs) as ex:
        rows = [r for part in ex.map(one, names) for r in part]
    w = max(len(r[0]) for r in rows) if rows else 4
    for r in rows:
        print("%-*s  %-4s  %-8s  %s" % (w, r[0], r[1], r[2], r[3]))
    res_md = os.path.join(V, "seeded", "RESULTS.md")
    if args and os.path.exists(res_md) and "--no-record" not in sys.argv:
        # partial run: the rows of these changes replace (or extend) the recorded table
        lines = open(res_md).read().split("\n")
        head = [l for l in lines if not l.startswith("| C")]
        old = {}
        for l in lines:
            if l.startswith("| C"):
                cells = [c.strip() for c in l.strip("|").split("|")]
                old[(cells[0], cells[1])] = l
        for r in rows:
            meta = json.load(open(os.path.join(V, "seeded", r[0], "meta.json")))
            old[(r[0], r[1])] = "| %s | %s | %s | %s | %s |" % (r[0], r[1], meta.get("needs_to_manifest", "").replace("|", "/"),
                                                           r[2], r[3].replace("|", "/")[:120])
        body = [old[k] for k in sorted(old)]
        with open(res_md, "w") as f:
            hs = [l for l in head if l.strip()]
            text = [l for l in hs if not l.startswith("|")]
            table = [l for l in hs if l.startswith("|")]
            f.write("\n\n".join(text) + "\n\n" + "\n".join(table + body) + "\n")
    if not args:    # full run: record the table
        with open(os.path.join(V, "seeded", "RESULTS.md"), "w") as f:
            f.write("# Seeded breaking changes vs. the registered checks (%s tier)\n\n" % tier)
            f.write("Produced by `python3 tools/run_seeded.py`: each patch applied to a scratch copy of /repo, the check run with "
                    "`ZIX_REPO=<copy>`.\n\n| change | property | needs to manifest | verdict | how |\n|---|---|---|---|---|\n")
            for r in rows:
                meta = json.load(open(os.path.join(V, "seeded", r[0], "meta.json")))
                f.write("| %s | %s | %s | %s | %s |\n" % (r[0], r[1], meta.get("needs_to_manifest", "").replace("|", "/"),
                                                         r[2], r[3].replace("|", "/")[:120]))
    return 0 if all(r[2] == "caught" for r in rows) else 1


if __name__ == "__main__":
    sys.exit(main())
