#!/usr/bin/env python3
"""(Re)generate coq/_CoqProject and coq/Makefile from the .v files present (Extract*.v excluded:
they are run by tools/build_models.sh).  No-op when the file list is unchanged."""
import os
import subprocess
import sys

COQ = os.path.join(os.path.dirname(os.path.dirname(os.path.abspath(__file__))), "coq")
files = sorted(f for f in os.listdir(COQ) if f.endswith(".v") and not f.startswith("Extract") and not f.startswith("Scratch"))
files += sorted("gen/" + f for f in os.listdir(os.path.join(COQ, "gen")) if f.endswith(".v"))
new = "-Q . Zix\n" + "\n".join(files) + "\n"
p = os.path.join(COQ, "_CoqProject")
if not os.path.exists(p) or open(p).read() != new or not os.path.exists(os.path.join(COQ, "Makefile")):
    open(p, "w").write(new)
    subprocess.run(["coq_makefile", "-f", "_CoqProject", "-o", "Makefile"], cwd=COQ, check=True,
                   stdout=subprocess.DEVNULL)
