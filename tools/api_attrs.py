#!/usr/bin/env python3
"""Purity attributes of the public API as the compiler sees them (gcc -E on each header).

`__attribute__((pure))` / `((const))` / `((malloc))` on a declaration are promises to every CALLER's optimiser: a
declaration that promises more than the function keeps (e.g. `const` on a function that reads the string it is given)
lets callers merge or hoist calls and breaks the function's contract without touching a single .c file.  The table
tools/api_attrs.json records the attributes of the pinned tree; a check reports any function of the headers its
property is anchored in whose promise got STRONGER (none < pure < const; malloc added).  Weaker is harmless.
usage: tools/api_attrs.py --update        (regenerate the committed table from /repo)"""
import json
import os
import re
import subprocess
import sys

V = os.path.dirname(os.path.dirname(os.path.abspath(__file__)))
TABLE = os.path.join(V, "tools", "api_attrs.json")


def scan(repo, headers=None):
    inc = os.path.join(repo, "include")
    hs = headers or sorted("zix/" + f for f in os.listdir(os.path.join(inc, "zix")) if f.endswith(".h"))
    res = {}
    for h in hs:
        p = subprocess.run(["gcc", "-E", "-P", "-I", inc, "-DZIX_STATIC", "-x", "c", "-"], input='#include <%s>\n' % h,
                           capture_output=True, text=True)
        if p.returncode != 0:
            continue
        text = p.stdout
        # keep only what comes from zix headers: declarations mentioning zix_ identifiers
        for decl in re.split(r"[;{}]", text):
            m = re.search(r"\b(zix_[a-z0-9_]+)\s*\(", decl)
            if not m or "typedef" in decl:
                continue
            head = decl[:m.start()]
            if "=" in head or "return" in head:
                continue
            s = 2 if re.search(r"__attribute__\s*\(\(\s*const\s*\)\)", head) else \
                1 if re.search(r"__attribute__\s*\(\(\s*pure\s*\)\)", head) else 0
            mal = bool(re.search(r"__attribute__\s*\(\(\s*malloc\s*\)\)", head))
            name = m.group(1)
            if name not in res or (s, mal) > (res[name]["strength"], res[name]["malloc"]):
                res[name] = {"strength": s, "malloc": mal, "header": h}
    return res


def problems(repo, headers):
    """functions declared in `headers` (paths like include/zix/path.h) whose promise is stronger than recorded"""
    if not os.path.exists(TABLE):
        return []
    base = json.load(open(TABLE))
    hs = [h.replace("include/", "") for h in headers if h.startswith("include/zix/") and
          os.path.exists(os.path.join(repo, h))]
    if not hs:
        return []
    cur = scan(repo, hs)
    names = {0: "none", 1: "pure", 2: "const"}
    out = []
    for n, c in sorted(cur.items()):
        b = base.get(n)
        if not b:
            continue
        if c["strength"] > b["strength"]:
            out.append("%s: declared %s, was %s (%s)" % (n, names[c["strength"]], names[b["strength"]], c["header"]))
        if c["malloc"] and not b["malloc"]:
            out.append("%s: malloc attribute added (%s)" % (n, c["header"]))
    return out


if __name__ == "__main__":
    if "--update" in sys.argv:
        t = scan(os.environ.get("ZIX_REPO", "/repo"))
        json.dump(t, open(TABLE, "w"), indent=1, sort_keys=True)
        print("%d functions recorded" % len(t))
    else:
        print(json.dumps(scan(os.environ.get("ZIX_REPO", "/repo")), indent=1)[:2000])
