#!/bin/sh
# usage: tools/harmless_one.sh <name>   - the verdict of the property's quick check (and of the checks listed under
# "also") on ONE behaviour-preserving rewrite of harmless/<name>/, in its own scratch copy of /repo; one line per check:
# quiet | tie-broken (VIOLATION ... no-failing-input-found) | FALSE-ALARM.  Several may run in parallel
# (ls harmless | grep -v RESULTS | xargs -P 6 -n 1 tools/harmless_one.sh); tools/run_harmless.py writes the table.
V=$(cd "$(dirname "$0")/.." && pwd)
n=$1
d=$V/harmless/$n
t=$(mktemp -d /tmp/zixh.XXXXXX)
rsync -a --exclude _build --exclude .git /repo/ "$t"/ && cd "$t" && git init -q || exit 2
if ! git apply "$d/patch.diff" 2>/dev/null; then echo "$n PATCH-DOES-NOT-APPLY"; rm -rf "$t"; exit 0; fi
for pid in $(python3 -c "import json;m=json.load(open('$d/meta.json'));print(' '.join([m['property']]+m.get('also',[])))"); do
  out=$(cd "$V" && ZIX_REPO=$t VERIF_NO_EVIDENCE=1 python3 tools/check.py "$pid" --tier quick 2>&1)
  v=$(echo "$out" | grep '^VIOLATION' | head -1)
  if [ -z "$v" ]; then echo "$n $pid quiet"
  elif echo "$v" | grep -q 'no-failing-input-found'; then echo "$n $pid tie-broken"
  else echo "$n $pid FALSE-ALARM $v"; fi
done
rm -rf "$t"
